#!/usr/bin/env python3
"""Regenerates MANIFEST.json from props/*.spec (claimed) and notapplicable.json. Run after adding a property check."""
import json, os, glob, re
home = os.path.dirname(os.path.abspath(__file__))
claims = json.load(open(os.path.join(home, 'claims.json')))
na = json.load(open(os.path.join(home, 'notapplicable.json')))
hooks = json.load(open(os.path.join(home, 'hooks.json')))
checks = []
for pid in sorted(claims):
    c = claims[pid]
    checks.append({
        "property_id": pid,
        "quick_cmd": f"bin/vc check {pid} --tier quick",
        "thorough_cmd": f"bin/vc check {pid} --tier thorough",
        "evidence_file": f"evidence/{pid}.json",
        "replay_cmd_template": "bin/vc replay {path}",
        "engine": "vc",
        "level_claimed": {"category": c.get("category", "proof"), "text": c["text"], "design_ref": c.get("design_ref", "DESIGN.md §5 " + pid)},
        "level_note": c["note"],
        "technique": c.get("technique", "contract-based deductive verification: weakest-precondition VCs over the typed Go AST, discharged by z3/cvc5"),
    })
m = {
    "version": 1,
    "setup_cmd": "cd /verif && GOFLAGS=-mod=mod GOPROXY=off GOSUMDB=off GOTOOLCHAIN=local go build -o bin/vc ./cmd/vc",
    "hooks": hooks,
    "engines": [{"name": "vc", "path": "cmd/vc", "serves_properties": sorted(claims),
                 "kind_free_text": "deductive verifier for the Go subset of this repository: contracts in //go:build verif comment files, modular symbolic execution of the typed AST, one SMT obligation per assertion conjunct, raced on z3 4.8.12 / z3 5.1.0 / cvc5 1.0"}],
    "checks": checks,
    "notes": "See DESIGN.md. Contracts live in /repo/**/verif_contracts.go (comment-only, build tag verif); pinned top-level postconditions in /verif/props; spec functions and lemmas in /verif/spec.",
    "not_applicable": [{"property_id": k, "reason": v} for k, v in sorted(na.items()) if k not in claims],
}
json.dump(m, open(os.path.join(home, 'MANIFEST.json'), 'w'), indent=1, ensure_ascii=False)
print("claimed:", sorted(claims), "n/a:", [k for k in sorted(na) if k not in claims])
