package fft

// Bounded stand-in for C19 (injected with `go test -overlay`): Transform against a naive DFT, inverse round trip,
// constructor behaviour.

import (
	"encoding/json"
	"fmt"
	"io/ioutil"
	"math"
	"math/cmplx"
	"math/rand"
	"os"
	"testing"
)

type hReq struct {
	Checks []string               `json:"checks"`
	Seed   int64                  `json:"seed"`
	Budget string                 `json:"budget"`
	Input  map[string]interface{} `json:"input,omitempty"`
}
type hFinding struct {
	Check    string      `json:"check"`
	Input    interface{} `json:"input"`
	Observed string      `json:"observed"`
	Expected string      `json:"expected"`
}
type hResp struct {
	Findings []hFinding         `json:"findings"`
	Cases    map[string]int     `json:"cases"`
	MaxErr   map[string]float64 `json:"max_abs_err"`
	Errors   []string           `json:"errors,omitempty"`
}

func naiveDFT(x []complex128) []complex128 {
	n := len(x)
	out := make([]complex128, n)
	for k := 0; k < n; k++ {
		var sr, si, cr, ci float64 // Kahan-compensated
		for j := 0; j < n; j++ {
			ang := -2 * math.Pi * float64((j*k)%n) / float64(n)
			s, c := math.Sincos(ang)
			re := real(x[j])*c - imag(x[j])*s
			im := real(x[j])*s + imag(x[j])*c
			y := re - cr
			t := sr + y
			cr = (t - sr) - y
			sr = t
			y = im - ci
			t = si + y
			ci = (t - si) - y
			si = t
		}
		out[k] = complex(sr, si)
	}
	return out
}

func norm(x []complex128) float64 {
	s := 0.0
	for _, v := range x {
		s += real(v)*real(v) + imag(v)*imag(v)
	}
	return math.Sqrt(s)
}

func TestVerifHarness(t *testing.T) {
	reqPath := os.Getenv("VERIF_HARNESS_REQ")
	outPath := os.Getenv("VERIF_HARNESS_OUT")
	if reqPath == "" || outPath == "" {
		t.Skip("harness not requested")
	}
	var req hReq
	b, _ := ioutil.ReadFile(reqPath)
	json.Unmarshal(b, &req)
	resp := &hResp{Cases: map[string]int{}, MaxErr: map[string]float64{}}
	rng := rand.New(rand.NewSource(req.Seed + 3))
	report := func(check string, in interface{}, obs, exp string) {
		if len(resp.Findings) < 10 {
			resp.Findings = append(resp.Findings, hFinding{check, in, obs, exp})
		}
	}
	maxP := 9
	if req.Budget == "thorough" {
		maxP = 12
	}
	for _, name := range req.Checks {
		switch name {
		case "dft-naive", "inverse-roundtrip":
			for p := 1; p <= maxP; p++ {
				N := 1 << uint(p)
				f, err := New(N)
				if err != nil {
					report(name, map[string]interface{}{"N": N}, err.Error(), "a transformer")
					continue
				}
				var inputs [][]complex128
				mk := func(g func(i int) complex128) {
					x := make([]complex128, N)
					for i := range x {
						x[i] = g(i)
					}
					inputs = append(inputs, x)
				}
				mk(func(i int) complex128 { return complex(rng.NormFloat64(), rng.NormFloat64()) })
				mk(func(i int) complex128 { return complex(float64(2*rng.Intn(2)-1), 0) })
				positions := []int{0, 1, N / 2, N - 1}
				if N <= 64 {
					positions = nil
					for i := 0; i < N; i++ {
						positions = append(positions, i)
					}
				}
				for _, pos := range positions {
					pos := pos
					mk(func(i int) complex128 {
						if i == pos {
							return 1
						}
						return 0
					})
					mk(func(i int) complex128 { return cmplx.Exp(complex(0, 2*math.Pi*float64(i*pos%N)/float64(N))) })
				}
				for ii, x := range inputs {
					resp.Cases[name]++
					in := map[string]interface{}{"N": N, "input": ii, "seed": req.Seed}
					if name == "dft-naive" {
						want := naiveDFT(x)
						got := f.Transform(append([]complex128(nil), x...))
						d := 0.0
						for i := range got {
							if a := cmplx.Abs(got[i] - want[i]); a > d {
								d = a
							}
						}
						rel := d / (norm(x) + 1e-300)
						if rel > resp.MaxErr[name] {
							resp.MaxErr[name] = rel
						}
						if !(rel <= 1e-9) {
							report(name, in, fmt.Sprintf("max |X - DFT(x)| / |x| = %g", rel), "<= 1e-9")
						}
					} else {
						y := f.Inverse(f.Transform(append([]complex128(nil), x...)))
						d := 0.0
						for i := range y {
							if a := cmplx.Abs(y[i] - x[i]); a > d {
								d = a
							}
						}
						rel := d / (norm(x) + 1e-300)
						if rel > resp.MaxErr[name] {
							resp.MaxErr[name] = rel
						}
						if !(rel <= 1e-9) {
							report(name, in, fmt.Sprintf("max |Inverse(Transform(x)) - x| / |x| = %g", rel), "<= 1e-9")
						}
					}
				}
			}
		case "constructor":
			for _, N := range []int{-1, 0, 1} {
				resp.Cases[name]++
				if _, err := New(N); err == nil {
					report(name, map[string]interface{}{"N": N}, "no error", "refused (length below 2)")
				}
			}
			resp.Cases[name]++
			if _, err := New(1<<27 + 1); err == nil {
				report(name, map[string]interface{}{"N": 1<<27 + 1}, "no error", "refused (length above 2^27)")
			}
			for _, N := range []int{2, 3, 4, 5, 7, 8, 9, 1000, 1023, 1024, 1025, 4097} {
				resp.Cases[name]++
				f, err := New(N)
				want := 1
				for want*2 <= N {
					want *= 2
				}
				if err != nil || f.N != want {
					report(name, map[string]interface{}{"N": N}, fmt.Sprint(f.N, err), fmt.Sprint(want))
				}
				// wrong length is refused, not computed
				func() {
					defer func() {
						if recover() == nil {
							report(name, map[string]interface{}{"N": N}, "Transform accepted a slice of the wrong length", "refusal (panic)")
						}
					}()
					f.Transform(make([]complex128, f.N+1))
				}()
			}
		default:
			resp.Errors = append(resp.Errors, "unknown check "+name)
		}
	}
	o, _ := json.MarshalIndent(resp, "", " ")
	ioutil.WriteFile(outPath, o, 0644)
}
