package randomness

// Replay / bounded-stand-in harness for the deductive verifier in /verif.
// Injected with `go test -overlay` (never written into the repository).
// Reference implementations below are written from the GM/T 0005-2021 definitions quoted in
// /verif/properties.jsonl, independently of the code under test.

import (
	mbig "math/big"
	"encoding/json"
	"fmt"
	"io/ioutil"
	"math"
	"math/rand"
	"os"
	"sort"
	"strings"
	"testing"
)

type hReq struct {
	Checks []string               `json:"checks"`
	Seed   int64                  `json:"seed"`
	Budget string                 `json:"budget"` // quick | thorough
	Input  map[string]interface{} `json:"input,omitempty"`
}

type hFinding struct {
	Check    string      `json:"check"`
	Input    interface{} `json:"input"`
	Observed string      `json:"observed"`
	Expected string      `json:"expected"`
}

type hResp struct {
	Findings []hFinding         `json:"findings"`
	Cases    map[string]int     `json:"cases"`
	MaxErr   map[string]float64 `json:"max_abs_err"`
	Errors   []string           `json:"errors,omitempty"`
}

// ---------------------------------------------------------------------------------------------
// reference numerics

// refQ: regularised upper incomplete gamma function Q(a,x) (series / Lentz continued fraction).
func refQ(a, x float64) float64 {
	if x <= 0 || a <= 0 {
		return 1
	}
	lg, _ := math.Lgamma(a)
	if x < a+1 {
		// series for P
		ap := a
		sum := 1.0 / a
		del := sum
		for n := 0; n < 100000; n++ {
			ap++
			del *= x / ap
			sum += del
			if math.Abs(del) < math.Abs(sum)*1e-17 {
				break
			}
		}
		return 1 - sum*math.Exp(-x+a*math.Log(x)-lg)
	}
	const tiny = 1e-300
	b := x + 1 - a
	c := 1 / tiny
	d := 1 / b
	h := d
	for i := 1; i < 100000; i++ {
		an := -float64(i) * (float64(i) - a)
		b += 2
		d = an*d + b
		if math.Abs(d) < tiny {
			d = tiny
		}
		c = b + an/c
		if math.Abs(c) < tiny {
			c = tiny
		}
		d = 1 / d
		del := d * c
		h *= del
		if math.Abs(del-1) < 1e-17 {
			break
		}
	}
	return math.Exp(-x+a*math.Log(x)-lg) * h
}

func refPhi(x float64) float64 { return 0.5 * math.Erfc(-x/math.Sqrt2) }

// ---------------------------------------------------------------------------------------------
// reference statistics (bit sequences as []bool)

func b2f(b bool) int {
	if b {
		return 1
	}
	return 0
}

func refMonobit(b []bool) (float64, float64) {
	n := len(b)
	s := 0
	for _, x := range b {
		s += 2*b2f(x) - 1
	}
	v := float64(s) / math.Sqrt(float64(n))
	return math.Erfc(math.Abs(v) / math.Sqrt2), math.Erfc(v/math.Sqrt2) / 2
}

func refBlockFreq(b []bool, m int) float64 {
	N := len(b) / m
	v := 0.0
	for i := 0; i < N; i++ {
		c := 0
		for j := 0; j < m; j++ {
			c += b2f(b[i*m+j])
		}
		pi := float64(c) / float64(m)
		v += (pi - 0.5) * (pi - 0.5)
	}
	v *= 4 * float64(m)
	return refQ(float64(N)/2, v/2)
}

func refPoker(b []bool, m int) float64 {
	N := len(b) / m
	cnt := make([]int, 1<<uint(m))
	for i := 0; i < N; i++ {
		v := 0
		for j := 0; j < m; j++ {
			v = v*2 + b2f(b[i*m+j])
		}
		cnt[v]++
	}
	s := 0.0
	for _, c := range cnt {
		s += float64(c) * float64(c)
	}
	V := float64(int(1)<<uint(m))/float64(N)*s - float64(N)
	return refQ(float64(int(1)<<uint(m)-1)/2, V/2)
}

func refPsi2(b []bool, w int) float64 {
	n := len(b)
	if w <= 0 {
		return 0
	}
	cnt := make([]int, 1<<uint(w))
	for s := 0; s < n; s++ {
		v := 0
		for j := 0; j < w; j++ {
			v = v*2 + b2f(b[(s+j)%n])
		}
		cnt[v]++
	}
	sum := 0.0
	for _, c := range cnt {
		sum += float64(c) * float64(c)
	}
	return float64(int(1)<<uint(w))/float64(n)*sum - float64(n)
}

// refPsi2Rat: psi^2_w as an exact rational (2^w/n * sum c^2 - n)
func refPsi2Rat(b []bool, w int) *mbig.Rat {
	n := len(b)
	if w <= 0 {
		return new(mbig.Rat)
	}
	cnt := make([]int64, 1<<uint(w))
	for s := 0; s < n; s++ {
		v := 0
		for j := 0; j < w; j++ {
			v = v*2 + b2f(b[(s+j)%n])
		}
		cnt[v]++
	}
	sum := new(mbig.Int)
	for _, c := range cnt {
		sum.Add(sum, new(mbig.Int).Mul(mbig.NewInt(c), mbig.NewInt(c)))
	}
	sum.Mul(sum, mbig.NewInt(int64(1)<<uint(w)))
	r := new(mbig.Rat).SetFrac(sum, mbig.NewInt(int64(n)))
	return r.Sub(r, new(mbig.Rat).SetInt64(int64(n)))
}

// refOverlapping: the first and second differences of psi^2 are formed exactly and rounded once (the upper incomplete
// gamma function with shape 1/2 is singular at 0, so noise in a difference of rounded values would be amplified)
func refOverlapping(b []bool, m int) (float64, float64) {
	p0, p1, p2 := refPsi2Rat(b, m), refPsi2Rat(b, m-1), refPsi2Rat(b, m-2)
	d1 := new(mbig.Rat).Sub(p0, p1)
	d2 := new(mbig.Rat).Sub(p0, p1)
	d2.Sub(d2, p1)
	d2.Add(d2, p2)
	f1, _ := d1.Float64()
	f2, _ := d2.Float64()
	return refQ(math.Pow(2, float64(m-2)), f1/2), refQ(math.Pow(2, float64(m-3)), f2/2)
}

func refApEnPhi(b []bool, w int) float64 {
	n := len(b)
	cnt := make([]int, 1<<uint(w))
	for s := 0; s < n; s++ {
		v := 0
		for j := 0; j < w; j++ {
			v = v*2 + b2f(b[(s+j)%n])
		}
		cnt[v]++
	}
	sum := 0.0
	for _, c := range cnt {
		if c > 0 {
			f := float64(c) / float64(n)
			sum += f * math.Log(f)
		}
	}
	return sum
}

func refApEn(b []bool, m int) float64 {
	n := float64(len(b))
	apen := refApEnPhi(b, m) - refApEnPhi(b, m+1)
	return refQ(math.Pow(2, float64(m-1)), 2*n*(math.Ln2-apen)/2)
}

func refRuns(b []bool) (float64, float64) {
	n := len(b)
	ones := 0
	for _, x := range b {
		ones += b2f(x)
	}
	v := 1
	for i := 0; i+1 < n; i++ {
		if b[i] != b[i+1] {
			v++
		}
	}
	// pi(1-pi) from the exact counts (ones*zeros/n^2): no cancellation when pi is close to 0 or 1
	pq := new(mbig.Rat).SetFrac(mbig.NewInt(int64(ones)*int64(n-ones)), mbig.NewInt(int64(n)*int64(n)))
	w, _ := pq.Float64()
	V := (float64(v) - 2*float64(n)*w) / (2 * math.Sqrt(float64(n)) * w)
	return math.Erfc(math.Abs(V) / math.Sqrt2), math.Erfc(V/math.Sqrt2) / 2
}

func refRunsDist(b []bool) float64 {
	n := len(b)
	k := 0
	for i := 1; i <= n; i++ {
		if float64(n-i+3)/math.Pow(2, float64(i+2)) >= 5 {
			k = i
		}
	}
	B := make([]float64, k+1)
	G := make([]float64, k+1)
	i := 0
	for i < n {
		j := i
		for j < n && b[j] == b[i] {
			j++
		}
		L := j - i
		if L > k {
			L = k
		}
		if b[i] {
			B[L]++
		} else {
			G[L]++
		}
		i = j
	}
	T := 0.0
	for L := 1; L <= k; L++ {
		T += B[L] + G[L]
	}
	V := 0.0
	for L := 1; L <= k; L++ {
		e := T / math.Pow(2, float64(L+1))
		if L == k {
			e = T / math.Pow(2, float64(k))
		}
		V += (B[L]-e)*(B[L]-e)/e + (G[L]-e)*(G[L]-e)/e
	}
	return refQ(float64(k-1), V/2)
}

func refLongestRun(b []bool, one bool) float64 {
	n := len(b)
	var M, K, start int
	var pi []float64
	switch {
	case n < 6272:
		M, K, start, pi = 8, 3, 1, []float64{0.2148, 0.3672, 0.2305, 0.1875}
	case n < 750000:
		M, K, start, pi = 128, 5, 4, []float64{0.1174, 0.2430, 0.2494, 0.1752, 0.1027, 0.1124}
	default:
		M, K, start, pi = 10000, 6, 10, []float64{0.086632, 0.208201, 0.248419, 0.193913, 0.121458, 0.068011, 0.073366}
	}
	N := n / M
	v := make([]float64, K+1)
	for t := 0; t < N; t++ {
		best, cur := 0, 0
		for j := 0; j < M; j++ {
			if b[t*M+j] == one {
				cur++
				if cur > best {
					best = cur
				}
			} else {
				cur = 0
			}
		}
		c := best
		if c < start {
			c = start
		}
		if c > start+K {
			c = start + K
		}
		v[c-start]++
	}
	V := 0.0
	for j := 0; j <= K; j++ {
		e := float64(N) * pi[j]
		V += (v[j] - e) * (v[j] - e) / e
	}
	return refQ(float64(K)/2, V/2)
}

func refBinaryDerivative(b []bool, k int) (float64, float64) {
	n := len(b)
	d := append([]bool(nil), b...)
	for p := 0; p < k; p++ {
		nd := make([]bool, len(d)-1)
		for j := range nd {
			nd[j] = d[j] != d[j+1]
		}
		d = nd
	}
	s := 0
	for _, x := range d {
		s += 2*b2f(x) - 1
	}
	V := float64(s) / math.Sqrt(float64(n-k))
	return math.Erfc(math.Abs(V) / math.Sqrt2), math.Erfc(V/math.Sqrt2) / 2
}

func refAutocorrelation(b []bool, d int) (float64, float64) {
	n := len(b)
	a := 0
	for i := 0; i+d < n; i++ {
		if b[i] != b[i+d] {
			a++
		}
	}
	V := 2 * (float64(a) - float64(n-d)/2) / math.Sqrt(float64(n-d))
	return math.Erfc(math.Abs(V) / math.Sqrt2), math.Erfc(V/math.Sqrt2) / 2
}

func refCumulative(b []bool, fwd bool) float64 {
	n := len(b)
	s, z := 0, 0
	for i := 0; i < n; i++ {
		x := b[i]
		if !fwd {
			x = b[n-1-i]
		}
		s += 2*b2f(x) - 1
		if s > z {
			z = s
		}
		if -s > z {
			z = -s
		}
	}
	sq := math.Sqrt(float64(n))
	P := 1.0
	lo := int(math.Floor((float64(-n)/float64(z) + 1) / 4))
	hi := int(math.Floor((float64(n)/float64(z) - 1) / 4))
	for k := lo; k <= hi; k++ {
		P -= refPhi(float64(4*k+1)*float64(z)/sq) - refPhi(float64(4*k-1)*float64(z)/sq)
	}
	lo = int(math.Floor((float64(-n)/float64(z) - 3) / 4))
	for k := lo; k <= hi; k++ {
		P += refPhi(float64(4*k+3)*float64(z)/sq) - refPhi(float64(4*k+1)*float64(z)/sq)
	}
	return P
}

// true GF(2) rank by bit-set elimination (independent of the repository's row-echelon code)
func refRank32(rows []uint32) int {
	r := 0
	m := append([]uint32(nil), rows...)
	for col := 31; col >= 0 && r < len(m); col-- {
		p := -1
		for i := r; i < len(m); i++ {
			if m[i]>>uint(col)&1 == 1 {
				p = i
				break
			}
		}
		if p < 0 {
			continue
		}
		m[r], m[p] = m[p], m[r]
		for i := 0; i < len(m); i++ {
			if i != r && m[i]>>uint(col)&1 == 1 {
				m[i] ^= m[r]
			}
		}
		r++
	}
	return r
}

func refMatrixRank(b []bool) float64 {
	N := len(b) / 1024
	var fm, fm1, fr float64
	for t := 0; t < N; t++ {
		rows := make([]uint32, 32)
		for r := 0; r < 32; r++ {
			for c := 0; c < 32; c++ {
				if b[t*1024+r*32+c] {
					rows[r] |= 1 << uint(31-c)
				}
			}
		}
		switch refRank32(rows) {
		case 32:
			fm++
		case 31:
			fm1++
		default:
			fr++
		}
	}
	n := float64(N)
	V := (fm-0.2888*n)*(fm-0.2888*n)/(0.2888*n) + (fm1-0.5776*n)*(fm1-0.5776*n)/(0.5776*n) + (fr-0.1336*n)*(fr-0.1336*n)/(0.1336*n)
	return refQ(1, V/2)
}

// shortest LFSR length: brute force over (L, taps) for short blocks, else an independent Berlekamp-Massey on ints.
func refLFSRLenBrute(s []bool) int {
	n := len(s)
	for L := 0; L <= n; L++ {
		if L == 0 {
			ok := true
			for _, x := range s {
				if x {
					ok = false
				}
			}
			if ok {
				return 0
			}
			continue
		}
		for taps := 0; taps < 1<<uint(L); taps++ {
			ok := true
			for i := L; i < n && ok; i++ {
				v := false
				for j := 1; j <= L; j++ {
					if taps>>uint(j-1)&1 == 1 && s[i-j] {
						v = !v
					}
				}
				if v != s[i] {
					ok = false
				}
			}
			if ok {
				return L
			}
		}
	}
	return n
}

func refLFSRLenBM(s []bool) int {
	n := len(s)
	c := make([]byte, n+2)
	bb := make([]byte, n+2)
	c[0], bb[0] = 1, 1
	L, m := 0, 1
	for i := 0; i < n; i++ {
		d := byte(b2f(s[i]))
		for j := 1; j <= L; j++ {
			d ^= c[j] & byte(b2f(s[i-j]))
		}
		if d == 0 {
			m++
			continue
		}
		t := append([]byte(nil), c...)
		for j := 0; j+m < len(c); j++ {
			c[j+m] ^= bb[j]
		}
		if 2*L <= i {
			L = i + 1 - L
			bb = t
			m = 1
		} else {
			m++
		}
	}
	return L
}

func refLinearComplexity(b []bool, m int) float64 {
	N := len(b) / m
	pi := []float64{0.010417, 0.03125, 0.125, 0.5, 0.25, 0.0625, 0.020833}
	v := make([]float64, 7)
	sign := 1.0
	if m%2 == 1 {
		sign = -1.0
	}
	mu := float64(m)/2 + (9+sign)/36 - (float64(m)/3+2.0/9)/math.Pow(2, float64(m))
	for t := 0; t < N; t++ {
		L := refLFSRLenBM(b[t*m : (t+1)*m])
		T := sign*(float64(L)-mu) + 2.0/9
		switch {
		case T <= -2.5:
			v[0]++
		case T <= -1.5:
			v[1]++
		case T <= -0.5:
			v[2]++
		case T <= 0.5:
			v[3]++
		case T <= 1.5:
			v[4]++
		case T <= 2.5:
			v[5]++
		default:
			v[6]++
		}
	}
	V := 0.0
	for i := range v {
		e := float64(N) * pi[i]
		V += (v[i] - e) * (v[i] - e) / e
	}
	return refQ(3, V/2)
}

func refMaurer(b []bool) (float64, float64) {
	const L, Q = 7, 1280
	n := len(b)
	K := n/L - Q
	last := make([]int, 1<<L)
	sum := 0.0
	for t := 1; t <= Q+K; t++ {
		v := 0
		for j := 0; j < L; j++ {
			v = v*2 + b2f(b[(t-1)*L+j])
		}
		if t > Q {
			sum += math.Log2(float64(t - last[v]))
		}
		last[v] = t
	}
	c := 0.7 - 0.8/float64(L) + (4+32/float64(L))*math.Pow(float64(K), -3/float64(L))/15
	sigma := c * math.Sqrt(3.125/float64(K))
	V := (sum/float64(K) - 6.1962507) / sigma
	return math.Erfc(math.Abs(V) / math.Sqrt2), math.Erfc(V/math.Sqrt2) / 2
}

func refDFT(b []bool) (float64, float64) {
	n := len(b)
	// naive DFT of the +-1 sequence for the first n/2-1 frequencies of the zero-padded length
	N := 2
	for N < n {
		N *= 2
	}
	T := math.Sqrt(2.995732274 * float64(n))
	n1 := 0
	for k := 0; k < n/2-1; k++ {
		re, im := 0.0, 0.0
		for j := 0; j < n; j++ {
			ang := -2 * math.Pi * float64(j) * float64(k) / float64(N)
			x := float64(2*b2f(b[j]) - 1)
			re += x * math.Cos(ang)
			im += x * math.Sin(ang)
		}
		if math.Hypot(re, im) < T {
			n1++
		}
	}
	n0 := 0.95 * float64(n) / 2
	V := (float64(n1) - n0) / math.Sqrt(0.95*0.05*float64(n)/3.8)
	return math.Erfc(math.Abs(V) / math.Sqrt2), math.Erfc(V/math.Sqrt2) / 2
}

// ---------------------------------------------------------------------------------------------
// input families

type hSeq struct {
	Name string
	Bits []bool
}

func famSeqs(n int, rng *rand.Rand, nrand int) []hSeq {
	mk := func(f func(i int) bool) []bool {
		b := make([]bool, n)
		for i := range b {
			b[i] = f(i)
		}
		return b
	}
	out := []hSeq{
		{"zeros", mk(func(i int) bool { return false })},
		{"ones", mk(func(i int) bool { return true })},
		{"alternating", mk(func(i int) bool { return i%2 == 0 })},
		{"one-transition", mk(func(i int) bool { return i >= n/2 })},
		{"lone-final-one", mk(func(i int) bool { return i == n-1 })},
		{"lone-first-one", mk(func(i int) bool { return i == 0 })},
		{"lone-final-zero", mk(func(i int) bool { return i != n-1 })},
		{"lone-first-zero", mk(func(i int) bool { return i != 0 })},
		{"period3", mk(func(i int) bool { return i%3 == 0 })},
		{"period7", mk(func(i int) bool { return i%7 < 3 })},
		{"biased-0.9", mk(func(i int) bool { return rng.Float64() < 0.9 })},
		{"biased-0.1", mk(func(i int) bool { return rng.Float64() < 0.1 })},
	}
	// LFSR output (x^16 + x^14 + x^13 + x^11 + 1)
	l := uint16(0xACE1)
	out = append(out, hSeq{"lfsr16", mk(func(i int) bool {
		bit := (l>>0 ^ l>>2 ^ l>>3 ^ l>>5) & 1
		l = l>>1 | bit<<15
		return l&1 == 1
	})})
	for r := 0; r < nrand; r++ {
		out = append(out, hSeq{fmt.Sprintf("random#%d", r), mk(func(i int) bool { return rng.Intn(2) == 1 })})
	}
	// a de Bruijn cycle when n is a power of two: every w-bit cyclic window (w <= log2 n) occurs equally often, so the
	// pattern statistics are exactly 0 (degenerate arguments of the incomplete gamma function)
	if n >= 8 && n&(n-1) == 0 {
		k := 0
		for 1<<uint(k) < n {
			k++
		}
		a := make([]int, 2*k)
		var seq []bool
		var db func(t, p int)
		db = func(t, p int) {
			if t > k {
				if k%p == 0 {
					for j := 1; j <= p; j++ {
						seq = append(seq, a[j] == 1)
					}
				}
				return
			}
			a[t] = a[t-p]
			db(t+1, p)
			for j := a[t-p] + 1; j < 2; j++ {
				a[t] = j
				db(t+1, t)
			}
		}
		db(1, 1)
		if len(seq) == n {
			out = append(out, hSeq{"de-bruijn", seq})
		}
	}
	// mostly random with one long run at the end / at the start (run accounting at the sequence boundaries)
	out = append(out, hSeq{"random+closing-run-of-ones", mk(func(i int) bool { return i >= n-40 || rng.Intn(2) == 1 })})
	out = append(out, hSeq{"random+closing-run-of-zeros", mk(func(i int) bool { return i < n-40 && rng.Intn(2) == 1 })})
	out = append(out, hSeq{"random+opening-run-of-ones", mk(func(i int) bool { return i < 40 || rng.Intn(2) == 1 })})
	// a walk that leaves 0 at the first step and drifts (extreme of the partial sums at the last step)
	out = append(out, hSeq{"drifting-up", mk(func(i int) bool { return i%5 != 4 })})
	// excursion at the start, none in the middle, a larger opposite one at the end: forward and backward walks differ
	out = append(out, hSeq{"ones-prefix+alternating+zeros-suffix", mk(func(i int) bool {
		switch {
		case i < n/80:
			return true
		case i >= n-n/40:
			return false
		}
		return i%2 == 0
	})})
	return out
}

func bitsToStr(b []bool) string {
	if len(b) > 256 {
		return fmt.Sprintf("%d bits (see family/seed)", len(b))
	}
	var sb strings.Builder
	for _, x := range b {
		if x {
			sb.WriteByte('1')
		} else {
			sb.WriteByte('0')
		}
	}
	return sb.String()
}

func strToBits(s string) []bool {
	b := make([]bool, 0, len(s))
	for _, c := range s {
		if c == '1' {
			b = append(b, true)
		} else if c == '0' {
			b = append(b, false)
		}
	}
	return b
}

func bitsToBytes(b []bool) []byte {
	out := make([]byte, len(b)/8)
	for i := range out {
		var v byte
		for j := 0; j < 8; j++ {
			v <<= 1
			if b[i*8+j] {
				v |= 1
			}
		}
		out[i] = v
	}
	return out
}

// ---------------------------------------------------------------------------------------------
// checks

type hCtx struct {
	req  *hReq
	resp *hResp
	rng  *rand.Rand
}

func (c *hCtx) report(check string, input interface{}, obs, exp string) {
	if len(c.resp.Findings) < 20 {
		c.resp.Findings = append(c.resp.Findings, hFinding{check, input, obs, exp})
	}
}

// cmp runs f under recover and compares with want (tolerance 1e-8, NaN-aware).
func (c *hCtx) cmp(check string, input interface{}, f func() []float64, want func() []float64) {
	c.resp.Cases[check]++
	var got []float64
	var pan interface{}
	func() {
		defer func() { pan = recover() }()
		got = f()
	}()
	if pan != nil {
		c.report(check, input, fmt.Sprintf("panic: %v", pan), "a P/Q value (no crash)")
		return
	}
	w := want()
	for i := range w {
		if math.IsNaN(w[i]) || math.IsInf(w[i], 0) {
			continue // reference undefined here (e.g. degenerate statistic)
		}
		d := math.Abs(got[i] - w[i])
		if d > c.resp.MaxErr[check] {
			c.resp.MaxErr[check] = d
		}
		if !(d <= 1e-8) {
			c.report(check, input, fmt.Sprintf("result[%d] = %.12g", i, got[i]), fmt.Sprintf("%.12g (|diff| = %.3g > 1e-8)", w[i], d))
			return
		}
	}
}

func (c *hCtx) sizes(min int, quick, thorough []int) []int {
	s := quick
	if c.req.Budget == "thorough" {
		s = append(append([]int{}, quick...), thorough...)
	}
	var out []int
	for _, n := range s {
		if n >= min {
			out = append(out, n)
		}
	}
	return out
}

type seqCheck struct {
	min      int
	params   []int
	run      func(b []bool, p int) []float64
	ref      func(b []bool, p int) []float64
	quick    []int
	thorough []int
	needMul8 bool
}

func hChecks() map[string]seqCheck {
	pq := func(p, q float64) []float64 { return []float64{p, q} }
	std := []int{100, 101, 127, 128, 129, 1000, 1001}
	big := []int{9999, 10000, 100003, 1000000}
	return map[string]seqCheck{
		"monobit": {1, []int{0}, func(b []bool, _ int) []float64 { return pq(MonoBitFrequencyTest(b)) }, func(b []bool, _ int) []float64 { return pq(refMonobit(b)) }, std, big, false},
		"monobit-bytes": {8, []int{0}, func(b []bool, _ int) []float64 { return pq(MonoBitFrequencyTestBytes(bitsToBytes(b))) }, func(b []bool, _ int) []float64 { return pq(refMonobit(b[:len(b)/8*8])) }, std, big, false},
		"blockfreq": {100, []int{2, 3, 10, 100, 1000}, func(b []bool, m int) []float64 { return pq(FrequencyWithinBlockProto(b, m)) }, func(b []bool, m int) []float64 { v := refBlockFreq(b, m); return pq(v, v) }, std, big, false},
		"blockfreq-auto": {100, []int{0}, func(b []bool, _ int) []float64 { return pq(FrequencyWithinBlockTest(b)) }, func(b []bool, _ int) []float64 {
			n := len(b)
			m := 10
			switch {
			case n >= 100000000:
				m = 1000000
			case n >= 1000000:
				m = 10000
			case n >= 10000:
				m = 1000
			case n >= 1000:
				m = 100
			}
			v := refBlockFreq(b, m)
			return pq(v, v)
		}, []int{100, 999, 1000, 1001, 9999, 10000, 20000}, []int{99999, 100000, 999999, 1000000}, false},
		"poker": {100, []int{2, 4, 8}, func(b []bool, m int) []float64 { return pq(PokerProto(b, m)) }, func(b []bool, m int) []float64 { v := refPoker(b, m); return pq(v, v) }, std, big, false},
		"poker-bytes": {104, []int{4, 8}, func(b []bool, m int) []float64 { return pq(PokerTestBytes(bitsToBytes(b), m)) }, func(b []bool, m int) []float64 { v := refPoker(b[:len(b)/8*8], m); return pq(v, v) }, std, big, false},
		"overlapping": {100, []int{2, 3, 5, 7}, func(b []bool, m int) []float64 {
			p1, p2, q1, q2 := OverlappingTemplateMatchingProto(b, m)
			return []float64{p1, p2, q1, q2}
		}, func(b []bool, m int) []float64 { p1, p2 := refOverlapping(b, m); return []float64{p1, p2, p1, p2} }, std, []int{9999, 100003}, false},
		"apen": {100, []int{2, 5, 7}, func(b []bool, m int) []float64 { return pq(ApproximateEntropyProto(b, m)) }, func(b []bool, m int) []float64 { v := refApEn(b, m); return pq(v, v) }, std, []int{9999, 100003}, false},
		"runs": {100, []int{0}, func(b []bool, _ int) []float64 { return pq(RunsTest(b)) }, func(b []bool, _ int) []float64 { return pq(refRuns(b)) }, std, big, false},
		"runsdist": {100, []int{0}, func(b []bool, _ int) []float64 { return pq(RunsDistributionTest(b)) }, func(b []bool, _ int) []float64 { v := refRunsDist(b); return pq(v, v) }, []int{100, 101, 127, 128, 159, 160, 161, 321, 642, 1000, 1283}, append([]int{2564, 5125}, big...), false},
		"longestrun": {128, []int{1, 0}, func(b []bool, one int) []float64 { return pq(LongestRunOfOnesInABlockProto(b, one == 1)) }, func(b []bool, one int) []float64 { v := refLongestRun(b, one == 1); return pq(v, v) }, []int{128, 129, 1000, 6271, 6272, 6273}, []int{100003, 749999, 750000, 1000000}, false},
		"binder": {100, []int{3, 7, 15}, func(b []bool, k int) []float64 { return pq(BinaryDerivativeProto(b, k)) }, func(b []bool, k int) []float64 { return pq(refBinaryDerivative(b, k)) }, std, []int{9999, 100003}, false},
		"autocorr": {100, []int{1, 2, 8, 16, 32}, func(b []bool, d int) []float64 { return pq(AutocorrelationProto(b, d)) }, func(b []bool, d int) []float64 { return pq(refAutocorrelation(b, d)) }, std, big, false},
		"cusum": {100, []int{1, 0}, func(b []bool, f int) []float64 { return pq(CumulativeTest(b, f == 1)) }, func(b []bool, f int) []float64 { v := refCumulative(b, f == 1); return pq(v, v) }, std, big, false},
		"rank": {1024, []int{0}, func(b []bool, _ int) []float64 { return pq(MatrixRankProto(b, 32, 32)) }, func(b []bool, _ int) []float64 { v := refMatrixRank(b); return pq(v, v) }, []int{1024, 1025, 2048, 10240}, []int{100003, 1000000}, false},
		"lincomp": {500, []int{500, 1000, 501, 9, 13}, func(b []bool, m int) []float64 { return pq(LinearComplexityProto(b, m)) }, func(b []bool, m int) []float64 { v := refLinearComplexity(b, m); return pq(v, v) }, []int{1000, 1001, 5000}, []int{100003}, false},
		"maurer": {8967, []int{0}, func(b []bool, _ int) []float64 { return pq(MaurerUniversalTest(b)) }, func(b []bool, _ int) []float64 { return pq(refMaurer(b)) }, []int{8967, 8968, 20000}, []int{100003, 1000000}, false},
		"dft": {100, []int{0}, func(b []bool, _ int) []float64 { return pq(DiscreteFourierTransformTest(b)) }, func(b []bool, _ int) []float64 { return pq(refDFT(b)) }, []int{100, 127, 128, 129, 1000, 1025}, []int{4099}, false},
	}
}

func (c *hCtx) runSeqCheck(name string, sc seqCheck) {
	// explicit replay input
	if c.req.Input != nil {
		if s, ok := c.req.Input["bits"].(string); ok {
			b := strToBits(s)
			p := 0
			if pf, ok := c.req.Input["param"].(float64); ok {
				p = int(pf)
			}
			c.cmp(name, map[string]interface{}{"bits": s, "param": p}, func() []float64 { return sc.run(b, p) }, func() []float64 { return sc.ref(b, p) })
			return
		}
	}
	nrand := 3
	if c.req.Budget == "thorough" {
		nrand = 8
	}
	// replay of a recorded (family, n, param): regenerate the same sequence by walking the same generator
	wantFam, _ := c.req.Input["family"].(string)
	wantN, wantP := -1, 0
	if wantFam != "" {
		if f, ok := c.req.Input["n"].(float64); ok {
			wantN = int(f)
		}
		if f, ok := c.req.Input["param"].(float64); ok {
			wantP = int(f)
		}
	}
	sizes := c.sizes(sc.min, sc.quick, sc.thorough)
	if name == "maurer" && c.req.Input == nil {
		// one 7-bit block value that is absent for 10^5 blocks and then recurs (a distance far beyond 2^12 arriving at an
		// unrelated moment of whatever running state the implementation keeps); 48 sequences of about 10^6 bits
		for rep := 0; rep < 48; rep++ {
			nb := 142857
			rr := rand.New(rand.NewSource(c.req.Seed*31 + int64(rep)))
			blocks := make([]int, nb)
			for k := range blocks {
				blocks[k] = rr.Intn(128)
			}
			v := 0x55 ^ (rep * 9 & 127)
			for k := 20000; k < 120000; k++ {
				if blocks[k] == v {
					blocks[k] ^= 1 << uint(rr.Intn(7))
				}
			}
			b := make([]bool, 7*nb)
			for k, x := range blocks {
				for j := 0; j < 7; j++ {
					b[7*k+j] = x>>(6-uint(j))&1 == 1
				}
			}
			in := map[string]interface{}{"family": "long-gap", "n": len(b), "seed": c.req.Seed*31 + int64(rep), "note": fmt.Sprintf("random 7-bit blocks; value %d removed from blocks 20000..119999 (one random bit flipped)", v)}
			before := len(c.resp.Findings)
			c.cmp(name, in, func() []float64 { return sc.run(b, 0) }, func() []float64 { return sc.ref(b, 0) })
			if len(c.resp.Findings) > before {
				break
			}
		}
	}
	wrapN := 8 * 65600 // more than 2^16 equal bytes / blocks: a narrowed counter type wraps
	if name != "dft" && name != "lincomp" && name != "rank" {
		sizes = append(sizes, wrapN)
	}
	for _, n := range sizes {
		fams := famSeqs(n, c.rng, nrand)
		if n == wrapN {
			// zeros, ones and one balanced random sequence: counters, products of counts and distances above 2^16 / 2^31
			var pick []hSeq
			for _, f := range fams {
				if f.Name == "zeros" || f.Name == "ones" || f.Name == "random#0" {
					pick = append(pick, f)
				}
			}
			fams = pick
		}
		for _, sq := range fams {
			for _, p := range sc.params {
				if wantFam != "" && (sq.Name != wantFam || n != wantN || p != wantP) {
					continue
				}
				if name == "dft" && n > 2000 && c.req.Budget != "thorough" {
					continue
				}
				if name == "blockfreq" && p > n {
					continue // block length above the sequence length: not an admissible parameter (the function refuses it)
				}
				if name == "blockfreq" && n == wrapN && p == 1000 {
					p = 140000 // blocks holding more than 2^16 ones
				}
				in := map[string]interface{}{"family": sq.Name, "n": n, "param": p, "seed": c.req.Seed, "bits": bitsToStr(sq.Bits)}
				before := len(c.resp.Findings)
				c.cmp(name, in, func() []float64 { return sc.run(sq.Bits, p) }, func() []float64 { return sc.ref(sq.Bits, p) })
				if len(c.resp.Findings) > before && len(c.resp.Findings) >= 3 {
					return
				}
			}
		}
	}
}

// igamc-grid: the library's incomplete-gamma tail against the independent series / continued-fraction evaluation, on
// the shapes the fifteen tests produce (integer and half-integer a up to 5000, a few larger ones) and arguments around
// the switch-over lines x = 1, x = a and in both tails. Bounded stand-in for "igamc = Q" (C06 is not applicable).
func (c *hCtx) checkIgamcGrid() {
	name := "igamc-grid"
	shapes := []float64{0.5, 1, 1.5, 2, 2.5, 3, 4.5, 7.5, 8, 15, 16, 31.5, 50, 64, 127.5, 128, 250, 500, 1000, 2500, 5000}
	if c.req.Budget == "thorough" {
		for a := 0.5; a <= 200; a += 0.5 {
			shapes = append(shapes, a)
		}
		shapes = append(shapes, 10000, 25000, 50000)
	}
	factors := []float64{0.001, 0.1, 0.5, 0.8, 0.9, 0.97, 0.99, 1, 1.01, 1.03, 1.1, 1.25, 1.5, 2, 4}
	for _, a := range shapes {
		xs := []float64{0, 1e-9, 0.5, 0.999999, 1, 1.000001, a - 1, a + 1, a + 10*math.Sqrt(a), 20*a + 200}
		for _, f := range factors {
			xs = append(xs, a*f)
		}
		for _, x := range xs {
			if x < 0 {
				continue
			}
			c.resp.Cases[name]++
			got := Igamc(a, x)
			want := refQ(a, x)
			tol := 1e-9
			if a > 5000 {
				tol = 1e-7
			}
			d := math.Abs(got - want)
			if d > c.resp.MaxErr[name] {
				c.resp.MaxErr[name] = d
			}
			if math.IsNaN(got) || got < 0 || got > 1 || d > tol {
				c.report(name, map[string]interface{}{"a": a, "x": x}, fmt.Sprintf("Igamc = %.15g", got), fmt.Sprintf("Q(a,x) = %.15g (independent evaluation), in [0,1], within %g", want, tol))
				if len(c.resp.Findings) >= 3 {
					return
				}
			}
		}
	}
}

// small-block exhaustive checks for the two routines whose functional correctness is only bounded
func (c *hCtx) checkLinearComplexityFn() {
	name := "linearComplexity-fn"
	maxLen := 12
	if c.req.Budget == "thorough" {
		maxLen = 16
	}
	for n := 1; n <= maxLen; n++ {
		for v := 0; v < 1<<uint(n); v++ {
			s := make([]bool, n)
			for i := range s {
				s[i] = v>>uint(i)&1 == 1
			}
			c.resp.Cases[name]++
			var got int
			var pan interface{}
			func() {
				defer func() { pan = recover() }()
				got = linearComplexity(s, n)
			}()
			if pan != nil {
				c.report(name, map[string]interface{}{"bits": bitsToStr(s), "M": n}, fmt.Sprintf("panic: %v", pan), "the shortest LFSR length (no crash)")
				return
			}
			want := refLFSRLenBrute(s)
			if n > 10 {
				want = refLFSRLenBM(s)
			}
			if got != want {
				c.report(name, map[string]interface{}{"bits": bitsToStr(s), "M": n}, fmt.Sprint(got), fmt.Sprint(want))
				return
			}
		}
	}
	// structured long blocks: all zero, lone final one, LFSR outputs
	for _, m := range []int{500, 1000, 5000} {
		for _, sq := range famSeqs(m, c.rng, 2) {
			c.resp.Cases[name]++
			var got int
			var pan interface{}
			func() {
				defer func() { pan = recover() }()
				got = linearComplexity(sq.Bits, m)
			}()
			if pan != nil {
				c.report(name, map[string]interface{}{"family": sq.Name, "M": m}, fmt.Sprintf("panic: %v", pan), "the shortest LFSR length (no crash)")
				return
			}
			if want := refLFSRLenBM(sq.Bits); got != want {
				c.report(name, map[string]interface{}{"family": sq.Name, "M": m}, fmt.Sprint(got), fmt.Sprint(want))
				return
			}
		}
	}
}

func (c *hCtx) checkRankFn() {
	name := "rank-fn"
	// exhaustive m x m for m <= 4 (5 in thorough), plus 32x32 of every rank built as products
	maxM := 4
	if c.req.Budget == "thorough" {
		maxM = 5
	}
	for m := 1; m <= maxM; m++ {
		for v := 0; v < 1<<uint(m*m); v++ {
			mat := make([][]int, m)
			rows := make([]uint32, m)
			for r := 0; r < m; r++ {
				mat[r] = make([]int, m)
				for cc := 0; cc < m; cc++ {
					if v>>uint(r*m+cc)&1 == 1 {
						mat[r][cc] = 1
						rows[r] |= 1 << uint(31-cc)
					}
				}
			}
			c.resp.Cases[name]++
			got := rank(mat, m)
			if want := refRank32(rows); got != want {
				c.report(name, map[string]interface{}{"m": m, "matrix": v}, fmt.Sprint(got), fmt.Sprint(want))
				return
			}
		}
	}
	for want := 0; want <= 32; want++ {
		for rep := 0; rep < 4; rep++ {
			// random matrix of rank exactly `want`: sum of `want` independent outer products is messy; build from a random
			// invertible-ish row basis instead: first `want` rows random independent, the rest random combinations
			var basis []uint32
			for len(basis) < want {
				r := c.rng.Uint32()
				if refRank32(append(append([]uint32{}, basis...), r)) == len(basis)+1 {
					basis = append(basis, r)
				}
			}
			rows := make([]uint32, 32)
			for i := range rows {
				if i < want {
					rows[i] = basis[i]
				} else {
					for _, bv := range basis {
						if c.rng.Intn(2) == 1 {
							rows[i] ^= bv
						}
					}
				}
			}
			c.rng.Shuffle(32, func(i, j int) { rows[i], rows[j] = rows[j], rows[i] })
			mat := make([][]int, 32)
			for r := range mat {
				mat[r] = make([]int, 32)
				for cc := 0; cc < 32; cc++ {
					mat[r][cc] = int(rows[r] >> uint(31-cc) & 1)
				}
			}
			c.resp.Cases[name]++
			if got := rank(mat, 32); got != want {
				c.report(name, map[string]interface{}{"rank": want, "rows": rows}, fmt.Sprint(got), fmt.Sprint(want))
				return
			}
		}
	}
}

// C15: entry points agree bit-identically (bytes vs bits, runner defaults, registry order)
func (c *hCtx) checkEntryPoints() {
	name := "entry-points"
	sizes := []int{1121, 1200, 2500, 2501}
	if c.req.Budget == "thorough" {
		sizes = append(sizes, 12500, 12503, 125000)
	}
	eq := func(what string, in interface{}, a, b []float64) bool {
		c.resp.Cases[name]++
		for i := range a {
			if a[i] != b[i] && !(math.IsNaN(a[i]) && math.IsNaN(b[i])) {
				c.report(name, in, fmt.Sprintf("%s: %v", what, a), fmt.Sprintf("bit-identical to %v", b))
				return false
			}
		}
		return true
	}
	// loading a file yields the same bits as expanding its bytes
	for _, fb := range []int{1, 7, 2500, 125000, 125001, 131072, 250000} {
		data := make([]byte, fb)
		c.rng.Read(data)
		f, err := ioutil.TempFile("", "vc-readgroup-")
		if err != nil {
			break
		}
		f.Write(data)
		f.Close()
		got := ReadGroup(f.Name())
		os.Remove(f.Name())
		want := B2bitArr(data)
		c.resp.Cases[name]++
		same := len(got) == len(want)
		for i := 0; same && i < len(got); i++ {
			same = got[i] == want[i]
		}
		if !same {
			c.report(name, map[string]interface{}{"file_bytes": fb, "seed": c.req.Seed}, fmt.Sprintf("ReadGroup returned %d bits", len(got)), fmt.Sprintf("the %d bits of the MSB-first expansion of the file", len(want)))
			return
		}
	}
	for _, nb := range sizes {
		for rep := 0; rep < 3; rep++ {
			data := make([]byte, nb)
			c.rng.Read(data)
			if rep == 1 {
				for i := range data {
					data[i] &= 0xF3
				}
			}
			if rep == 2 {
				data[0] |= 0x80 // first and last bit set (boundary handling of byte-level fast paths)
				data[len(data)-1] |= 0x01
			}
			bits := B2bitArr(data)
			in := map[string]interface{}{"bytes": nb, "rep": rep, "seed": c.req.Seed}
			p2 := func(p, q float64) []float64 { return []float64{p, q} }
			ok := true
			ok = ok && eq("MonoBitFrequencyTestBytes", in, p2(MonoBitFrequencyTestBytes(data)), p2(MonoBitFrequencyTest(bits)))
			ok = ok && eq("PokerTestBytes m=4", in, p2(PokerTestBytes(data, 4)), p2(PokerProto(bits, 4)))
			ok = ok && eq("PokerTestBytes m=8", in, p2(PokerTestBytes(data, 8)), p2(PokerProto(bits, 8)))
			ok = ok && eq("PokerTestBytes m=2", in, p2(PokerTestBytes(data, 2)), p2(PokerProto(bits, 2)))
			ok = ok && eq("FrequencyWithinBlockTestBytes", in, p2(FrequencyWithinBlockTestBytes(data, 100)), p2(FrequencyWithinBlockProto(bits, 100)))
			ok = ok && eq("RunsTestBytes", in, p2(RunsTestBytes(data)), p2(RunsTest(bits)))
			ok = ok && eq("RunsDistributionTestBytes", in, p2(RunsDistributionTestBytes(data)), p2(RunsDistributionTest(bits)))
			ok = ok && eq("LongestRun bytes(false)", in, p2(LongestRunOfOnesInABlockTestBytes(data, false)), p2(LongestRunOfOnesInABlockProto(bits, false)))
			ok = ok && eq("BinaryDerivativeTestBytes", in, p2(BinaryDerivativeTestBytes(data, 3)), p2(BinaryDerivativeProto(bits, 3)))
			for _, d := range []int{1, 2, 3, 8, 16} {
				ok = ok && eq(fmt.Sprintf("AutocorrelationTestBytes d=%d", d), in, p2(AutocorrelationTestBytes(data, d)), p2(AutocorrelationProto(bits, d)))
			}
			ok = ok && eq("BinaryDerivativeTestBytes k=7", in, p2(BinaryDerivativeTestBytes(data, 7)), p2(BinaryDerivativeProto(bits, 7)))
			ok = ok && eq("FrequencyWithinBlockTestBytes m=7", in, p2(FrequencyWithinBlockTestBytes(data, 7)), p2(FrequencyWithinBlockProto(bits, 7)))
			ok = ok && eq("LongestRun bytes(true)", in, p2(LongestRunOfOnesInABlockTestBytes(data, true)), p2(LongestRunOfOnesInABlockProto(bits, true)))
			ok = ok && eq("CumulativeTestBytes(false)", in, p2(CumulativeTestBytes(data, false)), p2(CumulativeTest(bits, false)))
			ok = ok && eq("CumulativeTestBytes(true)", in, p2(CumulativeTestBytes(data, true)), p2(CumulativeTest(bits, true)))
			ok = ok && eq("ApproximateEntropyTestBytes", in, p2(ApproximateEntropyTestBytes(data, 2)), p2(ApproximateEntropyProto(bits, 2)))
			ok = ok && eq("ApproximateEntropyTestBytes m=5", in, p2(ApproximateEntropyTestBytes(data, 5)), p2(ApproximateEntropyProto(bits, 5)))
			ok = ok && eq("MatrixRankTestBytes", in, p2(MatrixRankTestBytes(data, 32, 32)), p2(MatrixRankProto(bits, 32, 32)))
			ok = ok && eq("LinearComplexityTestBytes", in, p2(LinearComplexityTestBytes(data, 1000)), p2(LinearComplexityProto(bits, 1000)))
			ok = ok && eq("MaurerUniversalTestBytes", in, p2(MaurerUniversalTestBytes(data)), p2(MaurerUniversalTest(bits)))
			ok = ok && eq("DiscreteFourierTransformTestBytes", in, p2(DiscreteFourierTransformTestBytes(data)), p2(DiscreteFourierTransformTest(bits)))
			if !ok {
				return
			}
			// registry runners use the documented defaults, in the standard's order
			o1, o2, oq1, oq2 := OverlappingTemplateMatchingProto(bits, 5)
			want := [][]float64{
				p2(MonoBitFrequencyTest(bits)), p2(FrequencyWithinBlockTest(bits)), p2(PokerProto(bits, 8)), {o1, oq1},
				p2(RunsTest(bits)), p2(RunsDistributionTest(bits)), p2(LongestRunOfOnesInABlockProto(bits, true)), p2(BinaryDerivativeProto(bits, 7)),
				p2(AutocorrelationProto(bits, 16)), p2(MatrixRankProto(bits, 32, 32)), p2(CumulativeTest(bits, true)), p2(ApproximateEntropyProto(bits, 5)),
				p2(LinearComplexityProto(bits, 500)), p2(MaurerUniversalTest(bits)), p2(DiscreteFourierTransformTest(bits)),
			}
			if len(TestMethodArr) != 15 {
				c.report(name, in, fmt.Sprint(len(TestMethodArr)), "15 registry entries")
				return
			}
			for k, item := range TestMethodArr {
				r := item.Runner(data)
				if !eq(fmt.Sprintf("registry item %d (%s)", k+1, item.Name), in, []float64{r.P, r.Q}, want[k]) {
					return
				}
				wantPass := r.P >= 0.01
				if k == 3 {
					wantPass = math.Min(o1, o2) >= 0.01
					if r.P2 != o2 || r.Q2 != oq2 {
						c.report(name, in, fmt.Sprint(r.P2, r.Q2), fmt.Sprint(o2, oq2))
						return
					}
				}
				if r.Pass != wantPass {
					c.report(name, in, fmt.Sprintf("item %d Pass=%v", k+1, r.Pass), fmt.Sprint(wantPass))
					return
				}
			}
		}
	}
}

// C17: metamorphic runs — results are unchanged (or mirrored) under transformations the statistic cannot see
func (c *hCtx) checkSymmetry() {
	name := "symmetry"
	sizes := []int{9000, 10240}
	if c.req.Budget == "thorough" {
		sizes = append(sizes, 100003, 1000000)
	}
	near := func(what string, in interface{}, a, b []float64) bool {
		c.resp.Cases[name]++
		for i := range a {
			d := math.Abs(a[i] - b[i])
			if math.IsNaN(a[i]) && math.IsNaN(b[i]) {
				continue
			}
			if d > c.resp.MaxErr[name] {
				c.resp.MaxErr[name] = d
			}
			if !(d <= 1e-9) {
				c.report(name, in, fmt.Sprintf("%s: %v", what, a), fmt.Sprintf("%v", b))
				return false
			}
		}
		return true
	}
	p2 := func(p, q float64) []float64 { return []float64{p, q} }
	for _, n := range sizes {
		for _, sq := range famSeqs(n, c.rng, 2) {
			x := sq.Bits
			comp := make([]bool, n)
			rev := make([]bool, n)
			for i := range x {
				comp[i] = !x[i]
				rev[i] = x[n-1-i]
			}
			in := map[string]interface{}{"family": sq.Name, "n": n, "seed": c.req.Seed}
			ok := true
			// complement
			p, q := MonoBitFrequencyTest(x)
			ok = ok && near("monobit complement", in, p2(MonoBitFrequencyTest(comp)), []float64{p, 1 - q})
			ok = ok && near("blockfreq complement", in, p2(FrequencyWithinBlockProto(comp, 100)), p2(FrequencyWithinBlockProto(x, 100)))
			ok = ok && near("runs complement", in, p2(RunsTest(comp)), p2(RunsTest(x)))
			ok = ok && near("runsdist complement", in, p2(RunsDistributionTest(comp)), p2(RunsDistributionTest(x)))
			ok = ok && near("longest run complement", in, p2(LongestRunOfOnesInABlockProto(comp, true)), p2(LongestRunOfOnesInABlockProto(x, false)))
			ok = ok && near("binary derivative complement", in, p2(BinaryDerivativeProto(comp, 7)), p2(BinaryDerivativeProto(x, 7)))
			ok = ok && near("autocorrelation complement", in, p2(AutocorrelationProto(comp, 16)), p2(AutocorrelationProto(x, 16)))
			ok = ok && near("cusum complement", in, p2(CumulativeTest(comp, true)), p2(CumulativeTest(x, true)))
			ok = ok && near("poker complement", in, p2(PokerProto(comp, 4)), p2(PokerProto(x, 4)))
			o1, o2, _, _ := OverlappingTemplateMatchingProto(x, 3)
			c1, c2, _, _ := OverlappingTemplateMatchingProto(comp, 3)
			ok = ok && near("overlapping complement", in, []float64{c1, c2}, []float64{o1, o2})
			ok = ok && near("apen complement", in, p2(ApproximateEntropyProto(comp, 2)), p2(ApproximateEntropyProto(x, 2)))
			// reversal
			ok = ok && near("monobit reversal", in, p2(MonoBitFrequencyTest(rev)), p2(p, q))
			ok = ok && near("runs reversal", in, p2(RunsTest(rev)), p2(RunsTest(x)))
			ok = ok && near("runsdist reversal", in, p2(RunsDistributionTest(rev)), p2(RunsDistributionTest(x)))
			ok = ok && near("autocorrelation reversal", in, p2(AutocorrelationProto(rev, 8)), p2(AutocorrelationProto(x, 8)))
			ok = ok && near("binary derivative reversal", in, p2(BinaryDerivativeProto(rev, 3)), p2(BinaryDerivativeProto(x, 3)))
			ok = ok && near("cusum reversal (forward of reversed = backward)", in, p2(CumulativeTest(rev, true)), p2(CumulativeTest(x, false)))
			r1, r2, _, _ := OverlappingTemplateMatchingProto(rev, 3)
			ok = ok && near("overlapping reversal", in, []float64{r1, r2}, []float64{o1, o2})
			ok = ok && near("apen reversal", in, p2(ApproximateEntropyProto(rev, 2)), p2(ApproximateEntropyProto(x, 2)))
			// rotation
			for _, r := range []int{1, 7, n / 3} {
				rot := append(append([]bool{}, x[r:]...), x[:r]...)
				t1, t2, _, _ := OverlappingTemplateMatchingProto(rot, 3)
				ok = ok && near(fmt.Sprintf("overlapping rotation by %d", r), in, []float64{t1, t2}, []float64{o1, o2})
				ok = ok && near(fmt.Sprintf("apen rotation by %d", r), in, p2(ApproximateEntropyProto(rot, 2)), p2(ApproximateEntropyProto(x, 2)))
			}
			// the longest-run test chooses its block length by regime (8 / 128 / 10000)
			lrBlock := 8
			if n >= 750000 {
				lrBlock = 10000
			} else if n >= 6272 {
				lrBlock = 128
			}
			// discarded tail: flip bits beyond the last whole block
			tail := func(block int) []bool {
				y := append([]bool{}, x...)
				for i := n / block * block; i < n; i++ {
					y[i] = !y[i]
				}
				return y
			}
			ok = ok && near("blockfreq tail", in, p2(FrequencyWithinBlockProto(tail(1000), 1000)), p2(FrequencyWithinBlockProto(x, 1000)))
			ok = ok && near("poker tail", in, p2(PokerProto(tail(8), 8)), p2(PokerProto(x, 8)))
			ok = ok && near("longest run tail", in, p2(LongestRunOfOnesInABlockProto(tail(lrBlock), true)), p2(LongestRunOfOnesInABlockProto(x, true)))
			ok = ok && near("rank tail", in, p2(MatrixRankProto(tail(1024), 32, 32)), p2(MatrixRankProto(x, 32, 32)))
			ok = ok && near("linear complexity tail", in, p2(LinearComplexityProto(tail(500), 500)), p2(LinearComplexityProto(x, 500)))
			ok = ok && near("maurer tail", in, p2(MaurerUniversalTest(tail(7))), p2(MaurerUniversalTest(x)))
			// whole-block permutation (swap first and last whole block)
			swap := func(block int) []bool {
				y := append([]bool{}, x...)
				nb := n / block
				if nb >= 2 {
					for i := 0; i < block; i++ {
						y[i], y[(nb-1)*block+i] = y[(nb-1)*block+i], y[i]
					}
				}
				return y
			}
			ok = ok && near("blockfreq block permutation", in, p2(FrequencyWithinBlockProto(swap(1000), 1000)), p2(FrequencyWithinBlockProto(x, 1000)))
			ok = ok && near("poker block permutation", in, p2(PokerProto(swap(8), 8)), p2(PokerProto(x, 8)))
			ok = ok && near("longest run block permutation", in, p2(LongestRunOfOnesInABlockProto(swap(lrBlock), true)), p2(LongestRunOfOnesInABlockProto(x, true)))
			ok = ok && near("rank block permutation", in, p2(MatrixRankProto(swap(1024), 32, 32)), p2(MatrixRankProto(x, 32, 32)))
			ok = ok && near("linear complexity block permutation", in, p2(LinearComplexityProto(swap(500), 500)), p2(LinearComplexityProto(x, 500)))
			if !ok {
				return
			}
		}
	}
}

// C16: finite P/Q in [0,1], P = 2 min(Q,1-Q) for two-sided tests, Q = P for chi-square tests, Pass rule
// lagSource: bits copy the bit `lag` positions earlier with probability eps, otherwise a fair coin: weak structure that
// moves one of the two overlapping-subsequence P-values much more than the other.
func lagSource(seed int64, nbytes, lag int, eps float64) []byte {
	rnd := rand.New(rand.NewSource(seed))
	data := make([]byte, nbytes)
	hist := make([]int, 0, nbytes*8)
	for i := range data {
		for j := 0; j < 8; j++ {
			b := rnd.Intn(2)
			if k := len(hist); k >= lag && rnd.Float64() < eps {
				b = hist[k-lag]
			}
			hist = append(hist, b)
			data[i] = data[i]<<1 | byte(b)
		}
	}
	return data
}

func (c *hCtx) checkWellFormed() {
	name := "wellformed"
	// the two P-values of the overlapping test on opposite sides of the 0.01 level
	for seed := int64(1); seed <= 80; seed++ {
		eps := []float64{0.03, 0.05, 0.08, 0.12}[seed%4]
		lag := []int{4, 3}[seed%2]
		data := lagSource(c.req.Seed*1000+seed, 2500, lag, eps)
		r := TestMethodArr[3].Runner(data)
		c.resp.Cases[name]++
		if want := math.Min(r.P, r.P2) >= 0.01; r.Pass != want {
			c.report(name, map[string]interface{}{"family": "lag-source", "bytes": 2500, "lag": lag, "eps": eps, "seed": c.req.Seed*1000 + seed}, fmt.Sprintf("item 4 (%s): Pass=%v with P=%v P2=%v", TestMethodArr[3].Name, r.Pass, r.P, r.P2), fmt.Sprintf("Pass=%v", want))
			return
		}
	}
	sizes := []int{128 * 8, 1121 * 8, 2500 * 8}
	if c.req.Budget == "thorough" {
		sizes = append(sizes, 125000*8, 1250000*8)
	}
	twoSided := map[int]bool{0: true, 4: true, 7: true, 8: true, 13: true, 14: true}
	bad := func(v float64) bool { return math.IsNaN(v) || math.IsInf(v, 0) || v < -1e-9 || v > 1+1e-9 }
	for _, n := range sizes {
		seqs := famSeqs(n, c.rng, 4)
		// sequences sitting near the 0.01 level for one of the overlapping P-values
		for _, sq := range seqs {
			data := bitsToBytes(sq.Bits)
			in := map[string]interface{}{"family": sq.Name, "n": n, "seed": c.req.Seed}
			for k, item := range TestMethodArr {
				if (k == 12 && len(data) < 63) || (k == 13 && len(data) < 1121) || (k == 9 && len(data) < 128) {
					continue
				}
				c.resp.Cases[name]++
				var r *TestResult
				var pan interface{}
				func() {
					defer func() { pan = recover() }()
					r = item.Runner(data)
				}()
				if pan != nil {
					c.report(name, in, fmt.Sprintf("item %d (%s) panics: %v", k+1, item.Name, pan), "a result")
					return
				}
				if bad(r.P) || bad(r.Q) || (k == 3 && (bad(r.P2) || bad(r.Q2))) {
					c.report(name, in, fmt.Sprintf("item %d (%s): P=%v Q=%v P2=%v Q2=%v", k+1, item.Name, r.P, r.Q, r.P2, r.Q2), "finite values in [0,1]")
					return
				}
				if twoSided[k] {
					if math.Abs(r.P-2*math.Min(r.Q, 1-r.Q)) > 1e-9 {
						c.report(name, in, fmt.Sprintf("item %d (%s): P=%v Q=%v", k+1, item.Name, r.P, r.Q), "P = 2*min(Q, 1-Q)")
						return
					}
				} else if r.Q != r.P || (k == 3 && r.Q2 != r.P2) {
					c.report(name, in, fmt.Sprintf("item %d (%s): P=%v Q=%v", k+1, item.Name, r.P, r.Q), "Q = P")
					return
				}
				want := r.P >= 0.01
				if k == 3 {
					want = math.Min(r.P, r.P2) >= 0.01
				}
				if r.Pass != want {
					c.report(name, in, fmt.Sprintf("item %d (%s): Pass=%v with P=%v P2=%v", k+1, item.Name, r.Pass, r.P, r.P2), fmt.Sprintf("Pass=%v", want))
					return
				}
			}
			// non-default parameters
			for _, m := range []int{2, 5, 7} {
				c.resp.Cases[name]++
				p, q := ApproximateEntropyProto(sq.Bits, m)
				if bad(p) || q != p {
					c.report(name, in, fmt.Sprintf("approximate entropy m=%d: P=%v Q=%v", m, p, q), "finite, Q = P")
					return
				}
			}
		}
	}
}

// C18: inputs untouched, repeatable, same results under concurrent calls
func (c *hCtx) checkPurity() {
	name := "purity"
	nb := 2500
	if c.req.Budget == "thorough" {
		nb = 125000
	}
	data := make([]byte, nb)
	c.rng.Read(data)
	bits := B2bitArr(data)
	dataCopy := append([]byte(nil), data...)
	bitsCopy := append([]bool(nil), bits...)
	type fn struct {
		name string
		f    func() []float64
	}
	p2 := func(p, q float64) []float64 { return []float64{p, q} }
	var fns []fn
	for i, item := range TestMethodArr {
		item := item
		fns = append(fns, fn{fmt.Sprintf("runner %d %s", i+1, item.Name), func() []float64 { r := item.Runner(data); return []float64{r.P, r.Q, r.P2, r.Q2} }})
	}
	fns = append(fns,
		fn{"BinaryDerivativeProto k=3", func() []float64 { return p2(BinaryDerivativeProto(bits, 3)) }},
		fn{"MatrixRankProto", func() []float64 { return p2(MatrixRankProto(bits, 32, 32)) }},
		fn{"DiscreteFourierTransformTest", func() []float64 { return p2(DiscreteFourierTransformTest(bits)) }},
		fn{"LongestRun zeros", func() []float64 { return p2(LongestRunOfOnesInABlockProto(bits, false)) }},
		fn{"LinearComplexityProto 1000", func() []float64 { return p2(LinearComplexityProto(bits, 1000)) }},
		fn{"CumulativeTest backward", func() []float64 { return p2(CumulativeTest(bits, false)) }},
		fn{"PokerProto 2", func() []float64 { return p2(PokerProto(bits, 2)) }},
		fn{"OverlappingProto 7", func() []float64 { a, b, cc, d := OverlappingTemplateMatchingProto(bits, 7); return []float64{a, b, cc, d} }},
		fn{"ApproximateEntropyProto 7", func() []float64 { return p2(ApproximateEntropyProto(bits, 7)) }},
	)
	same := func(a, b []float64) bool {
		for i := range a {
			if a[i] != b[i] && !(math.IsNaN(a[i]) && math.IsNaN(b[i])) {
				return false
			}
		}
		return true
	}
	unchanged := func() bool {
		for i := range data {
			if data[i] != dataCopy[i] {
				return false
			}
		}
		for i := range bits {
			if bits[i] != bitsCopy[i] {
				return false
			}
		}
		return true
	}
	base := make([][]float64, len(fns))
	for i, f := range fns {
		c.resp.Cases[name]++
		base[i] = f.f()
		if !unchanged() {
			c.report(name, map[string]interface{}{"function": f.name, "bytes": nb}, "the caller's input slice was modified", "input left untouched")
			return
		}
		again := f.f()
		if !same(base[i], again) {
			c.report(name, map[string]interface{}{"function": f.name, "bytes": nb}, fmt.Sprint(again), fmt.Sprint(base[i])+" (bit-identical on repetition)")
			return
		}
	}
	// concurrent calls on the shared input
	type res struct {
		i int
		v []float64
	}
	ch := make(chan res, 8*len(fns))
	for g := 0; g < 8; g++ {
		go func(g int) {
			for k := range fns {
				i := (k + g) % len(fns)
				ch <- res{i, fns[i].f()}
			}
		}(g)
	}
	for k := 0; k < 8*len(fns); k++ {
		r := <-ch
		c.resp.Cases[name]++
		if !same(r.v, base[r.i]) {
			c.report(name, map[string]interface{}{"function": fns[r.i].name, "bytes": nb, "goroutines": 8}, fmt.Sprint(r.v), fmt.Sprint(base[r.i])+" (same as when called alone)")
			return
		}
	}
	if !unchanged() {
		c.report(name, map[string]interface{}{"bytes": nb}, "input modified by concurrent calls", "input left untouched")
	}
}

func TestVerifHarness(t *testing.T) {
	reqPath := os.Getenv("VERIF_HARNESS_REQ")
	outPath := os.Getenv("VERIF_HARNESS_OUT")
	if reqPath == "" || outPath == "" {
		t.Skip("harness not requested")
	}
	var req hReq
	b, err := os.ReadFile(reqPath)
	if err != nil {
		t.Fatal(err)
	}
	if err := json.Unmarshal(b, &req); err != nil {
		t.Fatal(err)
	}
	resp := &hResp{Cases: map[string]int{}, MaxErr: map[string]float64{}}
	c := &hCtx{req: &req, resp: resp, rng: rand.New(rand.NewSource(req.Seed + 1))}
	all := hChecks()
	names := req.Checks
	sort.Strings(names)
	for _, name := range names {
		switch name {
		case "linearComplexity-fn":
			c.checkLinearComplexityFn()
		case "rank-fn":
			c.checkRankFn()
		case "entry-points":
			c.checkEntryPoints()
		case "symmetry":
			c.checkSymmetry()
		case "purity":
			c.checkPurity()
		case "igamc-grid":
			c.checkIgamcGrid()
		case "wellformed":
			c.checkWellFormed()
		default:
			sc, ok := all[name]
			if !ok {
				resp.Errors = append(resp.Errors, "unknown check "+name)
				continue
			}
			c.runSeqCheck(name, sc)
		}
	}
	out, _ := json.MarshalIndent(resp, "", " ")
	if err := os.WriteFile(outPath, out, 0644); err != nil {
		t.Fatal(err)
	}
}
