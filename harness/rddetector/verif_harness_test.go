package main

// Replay harness for the batch detector (C13), injected with `go test -overlay`.
// Runs one worker iteration on a generated sample file and compares every column with a direct library call
// chosen from the header text.

import (
	"time"
	"bytes"
	"encoding/json"
	"fmt"
	"io/ioutil"
	"log"
	"math"
	"math/rand"
	"os"
	"path/filepath"
	"regexp"
	"strconv"
	"strings"
	"sync"
	"testing"

	"github.com/Trisia/randomness"
)

type hReq struct {
	Checks []string               `json:"checks"`
	Seed   int64                  `json:"seed"`
	Budget string                 `json:"budget"`
	Input  map[string]interface{} `json:"input,omitempty"`
}
type hFinding struct {
	Check    string      `json:"check"`
	Input    interface{} `json:"input"`
	Observed string      `json:"observed"`
	Expected string      `json:"expected"`
}
type hResp struct {
	Findings []hFinding         `json:"findings"`
	Cases    map[string]int     `json:"cases"`
	MaxErr   map[string]float64 `json:"max_abs_err"`
	Errors   []string           `json:"errors,omitempty"`
}

var colRe = regexp.MustCompile(`^\[\s*\d+\]\s+(P1|Q1|P2|Q2|P|Q)\s+(\S+)(?:\s+(.*))?$`)

func param(p, key string) int {
	for _, f := range strings.Fields(p) {
		if strings.HasPrefix(f, key+"=") {
			v, _ := strconv.Atoi(strings.TrimPrefix(f, key+"="))
			return v
		}
	}
	return -1
}

func libValue(which, name, par string, buf []byte, bits []bool) (float64, error) {
	pick2 := func(p, q float64) (float64, error) {
		if which == "P" {
			return p, nil
		}
		if which == "Q" {
			return q, nil
		}
		return 0, fmt.Errorf("bad selector %s", which)
	}
	switch {
	case name == "单比特频数检测":
		return pick2(randomness.MonoBitFrequencyTest(bits))
	case name == "块内频数检测":
		return pick2(randomness.FrequencyWithinBlockProto(bits, param(par, "m")))
	case name == "扑克检测":
		return pick2(randomness.PokerProto(bits, param(par, "m")))
	case name == "重叠子序列检测":
		p1, p2, q1, q2 := randomness.OverlappingTemplateMatchingProto(bits, param(par, "m"))
		return map[string]float64{"P1": p1, "P2": p2, "Q1": q1, "Q2": q2}[which], nil
	case name == "游程总数检测":
		return pick2(randomness.RunsTest(bits))
	case name == "游程分布检测":
		return pick2(randomness.RunsDistributionTest(bits))
	case strings.HasPrefix(name, "块内最大"):
		return pick2(randomness.LongestRunOfOnesInABlockProto(bits, !strings.Contains(name, "0")))
	case name == "二元推导检测":
		return pick2(randomness.BinaryDerivativeProto(bits, param(par, "k")))
	case name == "自相关检测":
		return pick2(randomness.AutocorrelationProto(bits, param(par, "d")))
	case name == "矩阵秩检测":
		return pick2(randomness.MatrixRankProto(bits, 32, 32))
	case name == "累加和检测":
		return pick2(randomness.CumulativeTest(bits, strings.Contains(par, "前向")))
	case name == "近似熵检测":
		return pick2(randomness.ApproximateEntropyProto(bits, param(par, "m")))
	case name == "线性复杂度检测" || name == "线型复杂度检测":
		return pick2(randomness.LinearComplexityProto(bits, param(par, "m")))
	case strings.HasPrefix(name, "Maurer") || name == "通用统计检测":
		return pick2(randomness.MaurerUniversalTest(bits))
	case name == "离散傅里叶检测":
		return pick2(randomness.DiscreteFourierTransformTest(bits))
	}
	return 0, fmt.Errorf("unknown test %q", name)
}

func checkScale(resp *hResp, name, header string, worker func(<-chan string, chan<- *R), size int, seed int64) {
	dir, err := ioutil.TempDir("", "vc-c13-")
	if err != nil {
		resp.Errors = append(resp.Errors, err.Error())
		return
	}
	defer os.RemoveAll(dir)
	buf := make([]byte, size)
	rand.New(rand.NewSource(seed + 7)).Read(buf)
	file := filepath.Join(dir, "sub", "sample7.bin")
	os.MkdirAll(filepath.Dir(file), 0755)
	ioutil.WriteFile(file, buf, 0644)
	jobs := make(chan string)
	out := make(chan *R)
	go worker(jobs, out)
	jobs <- file
	r := <-out
	close(jobs)
	cols := strings.Split(strings.TrimSuffix(header, "\n"), ",")[1:]
	bits := randomness.B2bitArr(buf)
	resp.Cases[name]++
	if r.Name != "sample7.bin" {
		resp.Findings = append(resp.Findings, hFinding{name, map[string]interface{}{"file": file}, r.Name, "sample7.bin"})
		return
	}
	if 2*len(r.P) != len(cols) || len(r.Q) != len(r.P) {
		resp.Findings = append(resp.Findings, hFinding{name, map[string]interface{}{"scale": name}, fmt.Sprintf("%d P and %d Q values", len(r.P), len(r.Q)), fmt.Sprintf("%d value columns", len(cols))})
		return
	}
	// a row must keep its own values while the same worker goes on to its next file: the report writer may be stalled
	// (rows travel through a channel to another goroutine), so the row of file 1 is looked at only after the worker has
	// delivered the row of file 2 (seed R8-H: result buffers reused across files)
	{
		size2 := size
		if size2 > 125000 {
			size2 = 125000
		}
		buf2 := make([]byte, size2)
		rand.New(rand.NewSource(seed + 8)).Read(buf2)
		file2 := filepath.Join(dir, "sample8.bin")
		ioutil.WriteFile(file2, buf2, 0644)
		jobs2 := make(chan string)
		out2 := make(chan *R)
		go worker(jobs2, out2)
		jobs2 <- file
		r1 := <-out2
		jobs2 <- file2
		r2 := <-out2
		close(jobs2)
		resp.Cases[name]++
		same := r1.Name == r.Name && len(r1.P) == len(r.P) && len(r1.Q) == len(r.Q)
		for i := 0; same && i < len(r.P); i++ {
			same = (r1.P[i] == r.P[i] || (r1.P[i] != r1.P[i] && r.P[i] != r.P[i])) && (r1.Q[i] == r.Q[i] || (r1.Q[i] != r1.Q[i] && r.Q[i] != r.Q[i]))
		}
		if !same || r2.Name != "sample8.bin" {
			resp.Findings = append(resp.Findings, hFinding{name, map[string]interface{}{"scale": name, "files": []string{"sample7.bin", "sample8.bin"}, "file_seed": seed + 7, "file_bytes": size, "second_file_bytes": size2,
				"schedule": "row of the first file read after the same worker delivered the row of the second file"},
				fmt.Sprintf("row %s: P=%v Q=%v", r1.Name, r1.P, r1.Q), fmt.Sprintf("row %s with the values of a single-file run: P=%v Q=%v", r.Name, r.P, r.Q)})
			return
		}
	}
	// the row as the writer formats it
	var w bytes.Buffer
	var wg sync.WaitGroup
	wg.Add(1)
	in := make(chan *R, 1)
	in <- r
	close(in)
	resultWriter(in, &w, &wg)
	fields := strings.Split(strings.TrimSpace(w.String()), ", ")
	if len(fields) != len(cols)+1 {
		resp.Findings = append(resp.Findings, hFinding{name, map[string]interface{}{"scale": name}, fmt.Sprintf("row has %d fields", len(fields)), fmt.Sprintf("%d", len(cols)+1)})
		return
	}
	for j, c := range cols {
		m := colRe.FindStringSubmatch(strings.TrimSpace(c))
		if m == nil {
			resp.Errors = append(resp.Errors, "cannot parse header column "+c)
			continue
		}
		want, err := libValue(m[1], m[2], strings.TrimSpace(m[3]), buf, bits)
		if err != nil {
			resp.Errors = append(resp.Errors, err.Error())
			continue
		}
		got, _ := strconv.ParseFloat(fields[j+1], 64)
		resp.Cases[name]++
		if math.Abs(got-want) > 6e-7 {
			resp.Findings = append(resp.Findings, hFinding{name, map[string]interface{}{"scale": name, "column": strings.TrimSpace(c), "file_seed": seed + 7, "file_bytes": size},
				fmt.Sprintf("%.6f", got), fmt.Sprintf("%.6f (library value for the test and parameter the header names)", want)})
			if len(resp.Findings) >= 6 {
				return
			}
		}
	}
}

// tool-run: the real main() on a directory of five 2*10^4-bit files (two of them in a sub-directory): the report must
// have the header and exactly one complete row per file, each value the library value its header column names.
func checkToolRun(resp *hResp, name string, seed int64) {
	dir, err := ioutil.TempDir("", "vc-c13-run-")
	if err != nil {
		resp.Errors = append(resp.Errors, err.Error())
		return
	}
	defer os.RemoveAll(dir)
	files := map[string][]byte{}
	for i, rel := range []string{"a.bin", "b.dat", "c.bin", "sub/d.bin", "sub/e.dat"} {
		buf := make([]byte, 2500)
		rand.New(rand.NewSource(seed + int64(100+i))).Read(buf)
		full := filepath.Join(dir, "in", rel)
		os.MkdirAll(filepath.Dir(full), 0755)
		ioutil.WriteFile(full, buf, 0644)
		files[filepath.Base(rel)] = buf
	}
	ioutil.WriteFile(filepath.Join(dir, "in", "notes.txt"), []byte("not a sample"), 0644)
	oldIn, oldOut, oldN := inputPath, reportPath, NumWorkers
	defer func() { inputPath, reportPath, NumWorkers = oldIn, oldOut, oldN }()
	for _, workers := range []int{1, 3} {
		inputPath, reportPath, NumWorkers = filepath.Join(dir, "in"), filepath.Join(dir, fmt.Sprintf("report%d.csv", workers)), workers
		done := make(chan interface{}, 1)
		go func() {
			defer func() { done <- recover() }()
			main()
		}()
		in := map[string]interface{}{"files": "a.bin b.dat c.bin sub/d.bin sub/e.dat (2500 random bytes each, seeds seed+100..104) + notes.txt", "workers": workers, "seed": seed}
		select {
		case p := <-done:
			if p != nil {
				resp.Findings = append(resp.Findings, hFinding{name, in, fmt.Sprintf("main panics: %v", p), "a report"})
				return
			}
		case <-time.After(120 * time.Second):
			resp.Findings = append(resp.Findings, hFinding{name, in, "main does not return within 120 s", "a report"})
			return
		}
		time.Sleep(300 * time.Millisecond) // a writer that is still flushing gets a moment; the report must be complete when main returns
		b, err := ioutil.ReadFile(reportPath)
		resp.Cases[name]++
		if err != nil {
			resp.Findings = append(resp.Findings, hFinding{name, in, err.Error(), "a report file"})
			return
		}
		lines := strings.Split(strings.TrimRight(string(b), "\n"), "\n")
		if lines[0]+"\n" != Header_2E4 {
			resp.Findings = append(resp.Findings, hFinding{name, in, "first line: " + lines[0], "the 2*10^4 header"})
			return
		}
		cols := strings.Split(strings.TrimSuffix(Header_2E4, "\n"), ",")[1:]
		seen := map[string]bool{}
		for _, ln := range lines[1:] {
			fields := strings.Split(strings.TrimSpace(ln), ", ")
			buf, ok := files[fields[0]]
			if !ok || seen[fields[0]] || len(fields) != len(cols)+1 {
				resp.Findings = append(resp.Findings, hFinding{name, in, "row: " + ln, fmt.Sprintf("one row per sample file with %d fields", len(cols)+1)})
				return
			}
			seen[fields[0]] = true
			bits := randomness.B2bitArr(buf)
			for j, c := range cols {
				m := colRe.FindStringSubmatch(strings.TrimSpace(c))
				if m == nil {
					continue
				}
				want, err := libValue(m[1], m[2], strings.TrimSpace(m[3]), buf, bits)
				if err != nil {
					continue
				}
				got, _ := strconv.ParseFloat(fields[j+1], 64)
				resp.Cases[name]++
				if math.Abs(got-want) > 6e-7 {
					in["file"] = fields[0]
					in["column"] = strings.TrimSpace(c)
					resp.Findings = append(resp.Findings, hFinding{name, in, fmt.Sprintf("%.6f", got), fmt.Sprintf("%.6f (library value for the test and parameter the header names)", want)})
					return
				}
			}
		}
		if len(seen) != len(files) {
			resp.Findings = append(resp.Findings, hFinding{name, in, fmt.Sprintf("%d rows", len(seen)), fmt.Sprintf("%d rows (one per .bin/.dat file)", len(files))})
			return
		}
	}
}

func TestVerifHarness(t *testing.T) {
	reqPath := os.Getenv("VERIF_HARNESS_REQ")
	outPath := os.Getenv("VERIF_HARNESS_OUT")
	if reqPath == "" || outPath == "" {
		t.Skip("harness not requested")
	}
	var req hReq
	b, err := ioutil.ReadFile(reqPath)
	if err != nil {
		t.Fatal(err)
	}
	if err := json.Unmarshal(b, &req); err != nil {
		t.Fatal(err)
	}
	log.SetOutput(ioutil.Discard)
	resp := &hResp{Cases: map[string]int{}, MaxErr: map[string]float64{}}
	for _, name := range req.Checks {
		switch name {
		case "tool-run":
			checkToolRun(resp, name, req.Seed)
		case "columns-2E4":
			checkScale(resp, name, Header_2E4, worker_2E4, 2500, req.Seed)
		case "columns-1E6":
			checkScale(resp, name, Header_1E6, worker_1E6, 125000, req.Seed)
		case "columns-1E8":
			if req.Budget == "thorough" {
				// the 10^8-bit worker and header on a 4*10^6-bit file: the column/header correspondence does not depend on the
				// file size, and a full-size file costs hours (linear complexity with m = 5000 on 10^8 bits, twice)
				checkScale(resp, name, Header_1E8, worker_1E8, 500000, req.Seed)
			} else {
				// quick replays: a 2*10^5-bit file (about 10 s per worker run)
				checkScale(resp, name, Header_1E8, worker_1E8, 25000, req.Seed)
			}
		default:
			resp.Errors = append(resp.Errors, "unknown check "+name)
		}
	}
	out, _ := json.MarshalIndent(resp, "", " ")
	if err := ioutil.WriteFile(outPath, out, 0644); err != nil {
		t.Fatal(err)
	}
}
