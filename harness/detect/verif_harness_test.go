package detect

// Replay / bounded-stand-in harness for the deductive verifier in /verif (injected with `go test -overlay`).

import (
	"encoding/json"
	"errors"
	"fmt"
	"io"
	"math"
	"math/big"
	"math/rand"
	"os"
	"runtime"
	"sort"
	"strings"
	"testing"
	"time"

	"github.com/Trisia/randomness"
)

type hReq struct {
	Checks []string               `json:"checks"`
	Seed   int64                  `json:"seed"`
	Budget string                 `json:"budget"`
	Input  map[string]interface{} `json:"input,omitempty"`
}

type hFinding struct {
	Check    string      `json:"check"`
	Input    interface{} `json:"input"`
	Observed string      `json:"observed"`
	Expected string      `json:"expected"`
}

type hResp struct {
	Findings []hFinding         `json:"findings"`
	Cases    map[string]int     `json:"cases"`
	MaxErr   map[string]float64 `json:"max_abs_err"`
	Errors   []string           `json:"errors,omitempty"`
}

// ---------------------------------------------------------------------------------------------
// sources

// byteStream: deterministic stream of "good" pseudo-random bytes (math/rand) — the verdict on it does not matter,
// only that every way of reading it yields the same verdict.
func goodBytes(seed int64, n int) []byte {
	r := rand.New(rand.NewSource(seed))
	b := make([]byte, n)
	r.Read(b)
	return b
}

// lfsrBytes: x^89 + x^38 + 1 (linear complexity 89: fails only the linear-complexity item among the fifteen)
func lfsrBytes(n int) []byte { return lfsrBytesSeed(n, 1) }

func lfsrBytesSeed(n int, seed int64) []byte {
	var st [89]byte
	r := rand.New(rand.NewSource(seed))
	for i := range st {
		st[i] = byte(r.Intn(2))
	}
	st[0] = 1
	out := make([]byte, n)
	p := 0
	for i := 0; i < n*8; i++ {
		bit := st[p] ^ st[(p+51)%89] // taps 89 and 38
		st[p] = bit
		p = (p + 1) % 89
		out[i/8] = out[i/8]<<1 | bit
	}
	return out
}

type sliceReader struct {
	eofWithData bool // deliver io.EOF together with the final bytes (allowed by the io.Reader contract)
	b      []byte
	pos    int
	chunk  func() int // max bytes per Read (0 = unlimited)
	failAt int        // absolute offset at which Read fails (-1 = never)
	err    error
	reads  int
	oneShot bool // the error is delivered once (together with the bytes before failAt); later Reads succeed
}

func (s *sliceReader) Read(p []byte) (int, error) {
	s.reads++
	n := len(p)
	if s.chunk != nil {
		if c := s.chunk(); c > 0 && c < n {
			n = c
		}
	}
	if s.failAt >= 0 && s.pos+n > s.failAt {
		n = s.failAt - s.pos
		if n < 0 {
			n = 0
		}
		copy(p, s.b[s.pos:s.pos+n])
		s.pos += n
		if s.oneShot {
			s.failAt = -1
		}
		return n, s.err
	}
	if s.pos+n > len(s.b) {
		n = len(s.b) - s.pos
	}
	if n == 0 && len(p) > 0 {
		return 0, io.EOF
	}
	copy(p, s.b[s.pos:s.pos+n])
	s.pos += n
	if s.eofWithData && s.pos == len(s.b) {
		return n, io.EOF
	}
	return n, nil
}

type lockedReader struct {
	mu chan struct{}
	r  io.Reader
}

func (l *lockedReader) Read(p []byte) (int, error) {
	l.mu <- struct{}{}
	defer func() { <-l.mu }()
	return l.r.Read(p)
}

func safeReader(r io.Reader) io.Reader { return &lockedReader{make(chan struct{}, 1), r} }

type workflow struct {
	name  string
	f     func(io.Reader) (bool, error)
	bytes int
	fast  bool
	seqOf string
}

func workflows(budget string) []workflow {
	w := []workflow{
		{"PeriodDetect", PeriodDetect, 20 * 2500, false, ""},
		{"PeriodDetectFast", PeriodDetectFast, 20 * 2500, true, "PeriodDetect"},
	}
	if budget == "thorough" {
		w = append(w,
			workflow{"PowerOnDetect", PowerOnDetect, 20 * 125000, false, ""},
			workflow{"PowerOnDetectFast", PowerOnDetectFast, 20 * 125000, true, "PowerOnDetect"},
			workflow{"FactoryDetect", FactoryDetect, 50 * 125000, false, ""},
			workflow{"FactoryDetectFast", FactoryDetectFast, 50 * 125000, true, "FactoryDetect"})
	}
	return w
}

type verdict struct {
	ok      bool
	err     string
	timeout bool
	pan     string
}

func (v verdict) String() string {
	if v.timeout {
		return "no return within the watchdog limit (hang)"
	}
	if v.pan != "" {
		return "panic: " + v.pan
	}
	return fmt.Sprintf("(%v, %q)", v.ok, v.err)
}

func runWF(f func(io.Reader) (bool, error), r io.Reader, limit time.Duration) verdict {
	ch := make(chan verdict, 1)
	go func() {
		defer func() {
			if p := recover(); p != nil {
				ch <- verdict{pan: fmt.Sprint(p)}
			}
		}()
		ok, err := f(r)
		v := verdict{ok: ok}
		if err != nil {
			v.err = err.Error()
		}
		ch <- v
	}()
	select {
	case v := <-ch:
		return v
	case <-time.After(limit):
		return verdict{timeout: true}
	}
}

type hCtx struct {
	req  *hReq
	resp *hResp
	rng  *rand.Rand
}

func (c *hCtx) report(check string, input interface{}, obs, exp string) {
	if len(c.resp.Findings) < 20 {
		c.resp.Findings = append(c.resp.Findings, hFinding{check, input, obs, exp})
	}
}

func limitFor(w workflow) time.Duration {
	if w.bytes > 1000000 {
		return 20 * time.Minute
	}
	return 60 * time.Second
}

// C10: same verdict whatever the read chunking
func (c *hCtx) checkChunking() {
	name := "chunking"
	primes := []int{1, 7, 1021}
	for _, w := range workflows(c.req.Budget) {
		data := goodBytes(c.req.Seed+11, w.bytes+4096)
		base := runWF(w.f, safeReader(&sliceReader{b: data, failAt: -1}), limitFor(w))
		for _, ch := range primes {
			ch := ch
			c.resp.Cases[name]++
			got := runWF(w.f, safeReader(&sliceReader{b: data, failAt: -1, chunk: func() int { return ch }}), limitFor(w))
			if got != base {
				c.report(name, map[string]interface{}{"workflow": w.name, "chunk": ch, "seed": c.req.Seed}, got.String(), "same as with full-buffer reads: "+base.String())
				return
			}
		}
		// a source holding exactly the required bytes that reports io.EOF together with the last chunk
		for _, ch := range []int{0, 997} {
			ch := ch
			c.resp.Cases[name]++
			got := runWF(w.f, safeReader(&sliceReader{b: data[:w.bytes], failAt: -1, eofWithData: true, chunk: func() int { return ch }}), limitFor(w))
			if got != base {
				c.report(name, map[string]interface{}{"workflow": w.name, "chunk": ch, "source": "exactly the required bytes, io.EOF returned together with the final bytes", "seed": c.req.Seed}, got.String(), "same as with full-buffer reads: "+base.String())
				return
			}
		}
		c.resp.Cases[name]++
		rr := rand.New(rand.NewSource(c.req.Seed + 5))
		got := runWF(w.f, safeReader(&sliceReader{b: data, failAt: -1, chunk: func() int { return 1 + rr.Intn(5000) }}), limitFor(w))
		if got != base {
			c.report(name, map[string]interface{}{"workflow": w.name, "chunk": "random 1..5000", "seed": c.req.Seed}, got.String(), "same as with full-buffer reads: "+base.String())
			return
		}
	}
	// single shot
	for _, nb := range []int{16, 40, 1280, 4096} {
		data := goodBytes(c.req.Seed+3, nb+64)
		b1, e1 := SingleDetect(&sliceReader{b: data, failAt: -1}, nb)
		b2, e2 := SingleDetect(&sliceReader{b: data, failAt: -1, chunk: func() int { return 1 }}, nb)
		c.resp.Cases[name]++
		if b1 != b2 || (e1 == nil) != (e2 == nil) {
			c.report(name, map[string]interface{}{"workflow": "SingleDetect", "numByte": nb}, fmt.Sprint(b2, e2), fmt.Sprint(b1, e1))
			return
		}
	}
}

// C09: failing source => prompt (false, err), no goroutine left behind
func (c *hCtx) checkFailing() {
	name := "failing-source"
	custom := errors.New("device failure")
	for _, w := range workflows(c.req.Budget) {
		sample := w.bytes / 20
		if w.bytes == 50*125000 {
			sample = 125000
		}
		offs := []int{0, 1, sample - 1, sample, sample + 1, w.bytes - sample, w.bytes - sample - 1, w.bytes - 1}
		for _, off := range offs {
			for _, e := range []error{io.EOF, io.ErrUnexpectedEOF, custom} {
				c.resp.Cases[name]++
				before := runtime.NumGoroutine()
				data := goodBytes(c.req.Seed+11, w.bytes)
				if sample == 2500 {
					data = allPassStream(c.req.Seed+11, w.bytes/sample, sample)
				}
				got := runWF(w.f, safeReader(&sliceReader{b: data, failAt: off, err: e}), 30*time.Second+limitFor(w)/4)
				in := map[string]interface{}{"workflow": w.name, "fail_offset": off, "error": e.Error()}
				if got.timeout || got.pan != "" || got.ok || got.err == "" {
					c.report(name, in, got.String(), "(false, non-nil error) within bounded time")
					return
				}
				// goroutines settle
				deadline := time.Now().Add(3 * time.Second)
				for runtime.NumGoroutine() > before && time.Now().Before(deadline) {
					time.Sleep(20 * time.Millisecond)
				}
				if n := runtime.NumGoroutine(); n > before {
					c.report(name, in, fmt.Sprintf("%d goroutines still alive (%d before the call)", n, before), "no goroutine left behind")
					return
				}
			}
		}
	}
	// an error returned together with a partial read and not repeated by the next Read (a transient device fault):
	// the source did return an error, so the verdict must be (false, err) — a read loop that looks only at the byte
	// count would carry on and judge the stream (seed R8-D)
	for _, w := range workflows(c.req.Budget) {
		sample := w.bytes / 20
		if w.bytes == 50*125000 {
			sample = 125000
		}
		for _, off := range []int{1, sample + 1, 7*sample + sample/2} {
			c.resp.Cases[name]++
			data := goodBytes(c.req.Seed+11, w.bytes)
			if sample == 2500 {
				data = allPassStream(c.req.Seed+11, w.bytes/sample, sample)
			}
			got := runWF(w.f, safeReader(&sliceReader{b: data, failAt: off, err: custom, oneShot: true}), 30*time.Second+limitFor(w))
			in := map[string]interface{}{"workflow": w.name, "fail_offset": off, "error": custom.Error(), "one_shot_error_with_partial_read": true}
			if got.timeout || got.pan != "" || got.ok || got.err == "" {
				c.report(name, in, got.String(), "(false, non-nil error) within bounded time")
				return
			}
		}
	}
	for _, nb := range []int{16, 100} {
		c.resp.Cases[name]++
		ok1, err1 := SingleDetect(&sliceReader{b: goodBytes(1, nb), failAt: nb / 2, err: custom, oneShot: true}, nb)
		if ok1 || err1 == nil {
			c.report(name, map[string]interface{}{"workflow": "SingleDetect", "numByte": nb, "one_shot_error_with_partial_read_at": nb / 2}, fmt.Sprint(ok1, err1), "(false, error)")
			return
		}
		ok, err := SingleDetect(&sliceReader{b: goodBytes(1, nb), failAt: nb - 1, err: io.EOF}, nb)
		if ok || err == nil {
			c.report(name, map[string]interface{}{"workflow": "SingleDetect", "numByte": nb}, fmt.Sprint(ok, err), "(false, error)")
			return
		}
	}
}

// allPassStream searches for a stream of s samples in which every sample passes every one of the 12 items,
// so that a workflow that wrongly goes on to judge after a truncated read has the best chance to accept.
var allPassCache = map[string][]byte{}

func allPassStream(seed int64, s, n int) []byte {
	key := fmt.Sprint(seed, s, n)
	if b, ok := allPassCache[key]; ok {
		return b
	}
	best := goodBytes(seed, s*n)
	for try := int64(0); try < 150; try++ {
		b := goodBytes(seed+1000*try, s*n)
		ok := true
		for i := 0; i < s && ok; i++ {
			for _, r := range Round12(b[i*n : (i+1)*n]) {
				if !r.Pass {
					ok = false
					break
				}
			}
		}
		if ok {
			best = b
			break
		}
	}
	allPassCache[key] = best
	return best
}

// C08: fast == sequential (verdict and named item)
func (c *hCtx) checkFastVsSeq() {
	name := "fast-vs-seq"
	all := map[string]workflow{}
	for _, w := range workflows(c.req.Budget) {
		all[w.name] = w
	}
	streams := map[string]func(n int) []byte{
		"good-prng": func(n int) []byte { return goodBytes(c.req.Seed+21, n) },
		"lfsr89":    lfsrBytes,
		"biased": func(n int) []byte {
			r := rand.New(rand.NewSource(c.req.Seed))
			b := make([]byte, n)
			for i := range b {
				b[i] = byte(r.Intn(256)) | byte(r.Intn(256))&0x11
			}
			return b
		},
	}
	// one sample repeated s times: every item fails uniformity, some fail the pass count — the NAMED item must agree
	for sd := int64(0); sd < 6; sd++ {
		sd := sd
		streams[fmt.Sprintf("repeated-block-%d", sd)] = func(n int) []byte {
			blk := goodBytes(c.req.Seed*100+sd, 2500)
			if n > 100000 {
				blk = goodBytes(c.req.Seed*100+sd, 125000)
			}
			out := make([]byte, n)
			for i := range out {
				out[i] = blk[i%len(blk)]
			}
			return out
		}
	}
	var names []string
	for k := range streams {
		names = append(names, k)
	}
	sort.Strings(names)
	// a stream on the uniformity boundary with one failing sample (sensitive to how per-sample Q-values are recorded)
	for _, w := range workflows(c.req.Budget) {
		if w.name != "PeriodDetectFast" {
			continue
		}
		if data, desc := uniformityBoundaryStream(c.req.Seed+1, 2500); data != nil {
			seq := all[w.seqOf]
			a := runWF(seq.f, &sliceReader{b: data, failAt: -1}, limitFor(w))
			b := runWF(w.f, safeReader(&sliceReader{b: data, failAt: -1}), limitFor(w))
			c.resp.Cases[name]++
			if a.ok != b.ok || itemOf(a.err) != itemOf(b.err) {
				c.report(name, map[string]interface{}{"fast": w.name, "stream": desc, "seed": c.req.Seed}, b.String(), "same verdict and failing item as "+seq.name+": "+a.String())
				return
			}
		}
	}
	// the same stream delivered in short reads that straddle sample boundaries (chunk sizes that do not divide the sample
	// size): the parallel variant must still agree with its sequential twin reading the stream whole (seed R8-C)
	for _, w := range workflows(c.req.Budget) {
		if !w.fast || w.bytes != 20*2500 {
			continue
		}
		seq := all[w.seqOf]
		data := allPassStream(c.req.Seed+11, 20, 2500)
		a := runWF(seq.f, &sliceReader{b: data, failAt: -1}, limitFor(w))
		for _, ch := range []int{7, 999, 4096} {
			ch := ch
			b := runWF(w.f, safeReader(&sliceReader{b: data, failAt: -1, chunk: func() int { return ch }}), limitFor(w))
			c.resp.Cases[name]++
			if a.ok != b.ok || itemOf(a.err) != itemOf(b.err) {
				c.report(name, map[string]interface{}{"fast": w.name, "stream": "all-passing stream", "read_chunk": ch, "seed": c.req.Seed}, b.String(), "same verdict and failing item as "+seq.name+": "+a.String())
				return
			}
		}
	}
	// a linear-feedback stream (complexity 89) that the first twelve items accept: only item 13 can reject it
	for _, w := range workflows(c.req.Budget) {
		if w.name != "PeriodDetectFast" {
			continue
		}
		seq := all[w.seqOf]
		for seed := int64(1); seed <= 40; seed++ {
			data := lfsrBytesSeed(w.bytes, c.req.Seed*1000+seed)
			a := runWF(seq.f, &sliceReader{b: data, failAt: -1}, limitFor(w))
			if !a.ok {
				continue
			}
			c.resp.Cases[name]++
			b := runWF(w.f, safeReader(&sliceReader{b: data, failAt: -1}), limitFor(w))
			if a.ok != b.ok || itemOf(a.err) != itemOf(b.err) {
				c.report(name, map[string]interface{}{"fast": w.name, "stream": "lfsr89", "lfsr_seed": c.req.Seed*1000 + seed}, b.String(), "same verdict as "+seq.name+": "+a.String())
				return
			}
			break
		}
	}
	// repeated blocks for which the sequential twin rejects on a PASS COUNT of some later item although item 1 already
	// fails uniformity: the two criteria are checked in different loops, so the named item is sensitive to loop structure
	for _, w := range workflows(c.req.Budget) {
		if w.name != "PeriodDetectFast" {
			continue
		}
		seq := all[w.seqOf]
		found := 0
		for sd := int64(0); sd < 80 && found < 4; sd++ {
			blk := goodBytes(c.req.Seed*1000+sd, 2500)
			data := make([]byte, w.bytes)
			for i := range data {
				data[i] = blk[i%len(blk)]
			}
			a := runWF(seq.f, &sliceReader{b: data, failAt: -1}, limitFor(w))
			if a.ok || !strings.Contains(a.err, "/") {
				continue
			}
			found++
			c.resp.Cases[name]++
			b := runWF(w.f, safeReader(&sliceReader{b: data, failAt: -1}), limitFor(w))
			if a.ok != b.ok || itemOf(a.err) != itemOf(b.err) {
				c.report(name, map[string]interface{}{"fast": w.name, "stream": "2500-byte block repeated 20 times", "block_seed": c.req.Seed*1000 + sd}, b.String(), "same verdict and failing item as "+seq.name+": "+a.String())
				return
			}
		}
	}
	for _, w := range workflows(c.req.Budget) {
		if !w.fast {
			continue
		}
		seq := all[w.seqOf]
		for _, sn := range names {
			data := streams[sn](w.bytes)
			c.resp.Cases[name]++
			a := runWF(seq.f, &sliceReader{b: data, failAt: -1}, limitFor(w))
			b := runWF(w.f, safeReader(&sliceReader{b: data, failAt: -1}), limitFor(w))
			if a.ok != b.ok || (a.err == "") != (b.err == "") || itemOf(a.err) != itemOf(b.err) {
				c.report(name, map[string]interface{}{"fast": w.name, "stream": sn, "seed": c.req.Seed}, b.String(), "same verdict and failing item as "+seq.name+": "+a.String())
				return
			}
		}
	}
}

// C07: the decision rule itself, recomputed from the library's per-sample results by an independent implementation of
// GM/T 0062 (pass counts against the exact threshold, ten-bin uniformity statistic), compared with the verdict AND the
// named item of the sequential and parallel workflows.
func refUniformity(q []float64) float64 {
	var h [10]float64
	for _, v := range q {
		j := 9
		for k, e := range []float64{0.1, 0.2, 0.3, 0.4, 0.5, 0.6, 0.7, 0.8, 0.9} {
			if v < e {
				j = k
				break
			}
		}
		h[j]++
	}
	V := 0.0
	e := float64(len(q)) / 10
	for _, x := range h {
		V += (x - e) * (x - e) / e
	}
	return randomness.Igamc(4.5, V/2)
}

func refDecision(stream []byte, s, n int, round func([]byte) []*randomness.TestResult) (bool, string, string) {
	var counts []int
	var qs [][]float64
	for i := 0; i < s; i++ {
		res := round(stream[i*n : (i+1)*n])
		if counts == nil {
			counts = make([]int, len(res))
			qs = make([][]float64, len(res))
		}
		for k, r := range res {
			qs[k] = append(qs[k], r.Q)
			if r.Pass {
				counts[k]++
			}
		}
	}
	t := int(exactThreshold(int64(s)))
	for k := range counts {
		if counts[k] < t {
			return false, randomness.TestMethodArr[k].Name, fmt.Sprintf("item %d passes %d of %d samples, threshold %d", k, counts[k], s, t)
		}
	}
	for k := range qs {
		if u := refUniformity(qs[k]); u < 0.0001 {
			return false, randomness.TestMethodArr[k].Name, fmt.Sprintf("item %d uniformity %g < 0.0001", k, u)
		}
	}
	return true, "", "every item reaches the threshold and the uniformity level"
}

// A pool of random 2500-byte samples with their per-item Q-values, from which 20-sample streams with a prescribed
// Q-histogram for one two-sided item (Q != P) are assembled.
type poolCand struct {
	b   []byte
	q   []float64
	all bool // passes every item
}

var samplePool = map[int64][]poolCand{}

func poolFor(seed int64, n int) []poolCand {
	if p, ok := samplePool[seed]; ok {
		return p
	}
	var pool []poolCand
	for i := 0; i < 2500; i++ {
		b := goodBytes(seed*7919+int64(i), n)
		c := poolCand{b: b, all: true}
		for _, r := range Round12(b) {
			c.q = append(c.q, r.Q)
			if !r.Pass {
				c.all = false
			}
		}
		pool = append(pool, c)
	}
	samplePool[seed] = pool
	return pool
}

type qRange struct {
	lo, hi float64
	count  int
}

// pickByRanges: all-pass samples whose Q-value for item k falls into the given ranges, `count` per range.
func pickByRanges(pool []poolCand, k int, rs []qRange) [][]byte {
	var out [][]byte
	used := map[int]bool{}
	for _, r := range rs {
		got := 0
		for i := range pool {
			if got == r.count {
				break
			}
			if used[i] || !pool[i].all || pool[i].q[k] < r.lo || pool[i].q[k] >= r.hi {
				continue
			}
			used[i] = true
			out = append(out, pool[i].b)
			got++
		}
		if got != r.count {
			return nil
		}
	}
	return out
}

func concat(bs [][]byte) []byte {
	var out []byte
	for _, b := range bs {
		out = append(out, b...)
	}
	return out
}

var twoSided = []int{8, 7, 4, 0} // autocorrelation, binary derivative, runs, monobit: Q != P

// uniformityBoundaryStream builds 20 samples for which one two-sided item k has exactly one failing sample whose
// Q-value lies above 0.995, and a Q-histogram (9,2,1,1,1,1,1,1,2,1) whose uniformity statistic is about 0.00095: the
// decision rule accepts, while a workflow that files the failing sample's Q anywhere else (or not at all) sees 0.00003.
func uniformityBoundaryStream(seed int64, n int) ([]byte, string) {
	pool := poolFor(seed, n)
	for _, k := range twoSided {
		var star []byte
		for i := range pool {
			c := &pool[i]
			if c.q[k] <= 0.995 {
				continue
			}
			res := Round12(c.b)
			others := !res[k].Pass
			for j, r := range res {
				if j != k && !r.Pass {
					others = false
				}
			}
			if others {
				star = c.b
				break
			}
		}
		if star == nil {
			continue
		}
		pick := pickByRanges(pool, k, []qRange{{0, 0.1, 9}, {0.1, 0.2, 2}, {0.2, 0.3, 1}, {0.3, 0.4, 1}, {0.4, 0.5, 1}, {0.5, 0.6, 1}, {0.6, 0.7, 1}, {0.7, 0.8, 1}, {0.8, 0.9, 2}})
		if pick == nil {
			continue
		}
		return concat(append(pick, star)), fmt.Sprintf("20 samples chosen from goodBytes(%d*7919+i, %d), i<2500: item %d has one failing sample with Q > 0.995 and Q-histogram (9,2,1,1,1,1,1,1,2,1)", seed, n, k)
	}
	return nil, ""
}

// pNotQStream: every sample passes every item; the Q-values of one two-sided item lie in half-bins chosen so that the
// Q-histogram (4,3,3,0,0,0,0,3,3,4) is acceptable (uniformity 0.12) while the histogram of the corresponding P-values
// 2*min(Q,1-Q) is (8,0,6,0,6,0,...) (uniformity 2e-7): a workflow that records P where the standard says Q rejects.
func pNotQStream(seed int64, n int) ([]byte, string) {
	pool := poolFor(seed, n)
	for _, k := range twoSided {
		pick := pickByRanges(pool, k, []qRange{{0.005, 0.05, 4}, {0.1, 0.15, 3}, {0.2, 0.25, 3}, {0.75, 0.8, 3}, {0.85, 0.9, 3}, {0.95, 0.995, 4}})
		if pick != nil {
			return concat(pick), fmt.Sprintf("20 all-passing samples chosen from goodBytes(%d*7919+i, %d), i<2500: item %d has Q-histogram (4,3,3,0,0,0,0,3,3,4) and P-histogram (8,0,6,0,6,0,0,0,0,0)", seed, n, k)
		}
	}
	return nil, ""
}

func (c *hCtx) checkDecisionRule() {
	name := "decision-rule"
	type strm struct {
		desc string
		b    func(n, s int) []byte
	}
	streams := []strm{
		{"good-prng", func(n, s int) []byte { return goodBytes(c.req.Seed+31, n*s) }},
		{"all-pass", func(n, s int) []byte { return allPassStream(c.req.Seed+32, s, n) }},
		{"lfsr89", func(n, s int) []byte { return lfsrBytes(n * s) }},
		{"repeated-block", func(n, s int) []byte {
			blk := goodBytes(c.req.Seed+33, n)
			var out []byte
			for i := 0; i < s; i++ {
				out = append(out, blk...)
			}
			return out
		}},
	}
	for _, w := range workflows(c.req.Budget) {
		s, n := 20, w.bytes/20
		round := Round12
		if w.bytes == 50*125000 {
			s, n = 50, 125000
		}
		if n == 125000 {
			round = Round15
		}
		list := streams
		if n == 2500 {
			if b, desc := uniformityBoundaryStream(c.req.Seed+1, n); b != nil {
				list = append([]strm{{desc, func(int, int) []byte { return b }}}, list...)
			}
			if b, desc := pNotQStream(c.req.Seed+1, n); b != nil {
				list = append([]strm{{desc, func(int, int) []byte { return b }}}, list...)
			}
		} else {
			list = list[:2]
		}
		for _, st := range list {
			data := st.b(n, s)
			wantOK, wantItem, why := refDecision(data, s, n, round)
			for _, chunk := range []int{0, 1000} {
				if chunk != 0 && w.fast {
					continue
				}
				ch := chunk
				c.resp.Cases[name]++
				got := runWF(w.f, safeReader(&sliceReader{b: data, failAt: -1, chunk: func() int { return ch }}), limitFor(w))
				in := map[string]interface{}{"workflow": w.name, "stream": st.desc, "seed": c.req.Seed, "read_chunk": chunk}
				if got.timeout || got.pan != "" || got.ok != wantOK || (got.ok && got.err != "") || (!got.ok && got.err == "") {
					c.report(name, in, got.String(), fmt.Sprintf("(%v, …): %s", wantOK, why))
					return
				}
				if !wantOK && itemOf(got.err) != wantItem {
					c.report(name, in, got.String(), fmt.Sprintf("error naming %s: %s", wantItem, why))
					return
				}
			}
		}
	}
}

func itemOf(e string) string {
	for i, ch := range e {
		if ch == ' ' {
			return e[:i]
		}
	}
	return e
}

// C14: stuck-at and short-cycle sources are rejected
func (c *hCtx) checkStuck() {
	name := "stuck-at"
	ws := workflows(c.req.Budget)
	consts := []int{0x00, 0xFF, 0x55, 0xAA, 0x01, 0x80, 0x3C}
	if c.req.Budget == "thorough" {
		consts = nil
		for v := 0; v < 256; v++ {
			consts = append(consts, v)
		}
	}
	for _, w := range ws {
		if w.bytes > 1000000 && c.req.Budget != "thorough" {
			continue
		}
		for _, v := range consts {
			if w.bytes > 1000000 && v%37 != 0 {
				continue
			}
			data := make([]byte, w.bytes)
			for i := range data {
				data[i] = byte(v)
			}
			c.resp.Cases[name]++
			got := runWF(w.f, safeReader(&sliceReader{b: data, failAt: -1}), limitFor(w))
			if got.ok || got.err == "" || got.timeout {
				c.report(name, map[string]interface{}{"workflow": w.name, "constant": v}, got.String(), "(false, non-nil error)")
				return
			}
		}
		// adversarial period: 64 distinct bytes whose 128 nibbles are exactly uniform (a 4-bit poker test cannot see it)
		{
			per := make([]byte, 0, 64)
			for a := 0; a < 16; a++ {
				for b := 0; b < 4; b++ {
					per = append(per, byte(a<<4|((a+b+int(c.req.Seed))&15)))
				}
			}
			data := make([]byte, w.bytes)
			for i := range data {
				data[i] = per[i%64]
			}
			c.resp.Cases[name]++
			got := runWF(w.f, safeReader(&sliceReader{b: data, failAt: -1}), limitFor(w))
			if got.ok || got.err == "" || got.timeout {
				c.report(name, map[string]interface{}{"workflow": w.name, "period": 64, "content": "nibble-uniform: byte a<<4|((a+b+seed)&15), a<16, b<4", "seed": c.req.Seed}, got.String(), "(false, non-nil error)")
				return
			}
		}
		periods := []int{2, 3, 7, 16, 63, 64}
		if c.req.Budget == "thorough" && w.bytes <= 1000000 {
			periods = nil
			for p := 2; p <= 64; p++ {
				periods = append(periods, p)
			}
		}
		for _, p := range periods {
			per := goodBytes(c.req.Seed+int64(p), p)
			data := make([]byte, w.bytes)
			for i := range data {
				data[i] = per[i%p]
			}
			c.resp.Cases[name]++
			got := runWF(w.f, safeReader(&sliceReader{b: data, failAt: -1}), limitFor(w))
			if got.ok || got.err == "" || got.timeout {
				c.report(name, map[string]interface{}{"workflow": w.name, "period": p, "seed": c.req.Seed}, got.String(), "(false, non-nil error)")
				return
			}
		}
	}
	for _, v := range []byte{0x00, 0xFF} {
		// lengths at which a narrow counter type would wrap
		for _, nb := range []int{255, 256, 257, 32767, 32768, 65535, 65536, 65537, 69000, 131072, 196608, 262144, 1 << 20} {
			data := make([]byte, nb)
			for i := range data {
				data[i] = v
			}
			c.resp.Cases[name]++
			ok, err := SingleDetect(&sliceReader{b: data, failAt: -1}, nb)
			if ok || err != nil {
				c.report(name, map[string]interface{}{"workflow": "SingleDetect", "constant": int(v), "numByte": nb}, fmt.Sprint(ok, err), "(false, nil): all-zero/all-one sample rejected")
				return
			}
		}
		for nb := 16; nb <= 4096; nb += 1 + nb/7 {
			data := make([]byte, nb)
			for i := range data {
				data[i] = v
			}
			c.resp.Cases[name]++
			ok, err := SingleDetect(&sliceReader{b: data, failAt: -1}, nb)
			if ok || err != nil {
				c.report(name, map[string]interface{}{"workflow": "SingleDetect", "constant": int(v), "numByte": nb}, fmt.Sprint(ok, err), "(false, nil): all-zero/all-one sample rejected")
				return
			}
		}
	}
}

// C14: the numeric tail facts assumed about Q(a, x), cross-checked against the code's igamc
func (c *hCtx) checkIgamcTail() {
	name := "igamc-tail"
	for _, t := range []struct{ a, x0 float64 }{{127.5, 160}, {7.5, 16}, {1.5, 6}} {
		prev := 1.0
		for x := t.x0; x < 400000; x = x*1.07 + 1 {
			c.resp.Cases[name]++
			q := randomness.Igamc(t.a, x)
			if !(q < 0.01) || q < 0 || q > prev+1e-12 {
				c.report(name, map[string]interface{}{"a": t.a, "x": x}, fmt.Sprint(q), "Q(a,x) < 0.01, non-negative and non-increasing beyond the assumed threshold")
				return
			}
			prev = q
		}
	}
}

// C12: Threshold(s) against exact arithmetic; ThresholdQ order independence and bin boundaries
func exactThreshold(s int64) int64 {
	// smallest integer t with t >= s(1 - a - 3 sqrt(a(1-a)/s)), a = 1/100:  t >= 0.99 s - 3 sqrt(0.0099 s)
	// i.e. 100 t - 99 s >= -300 sqrt(0.0099 s)  <=>  (99 s - 100 t) <= 300 sqrt(0.0099 s)
	// search around the float estimate with exact comparison of squares
	est := int64(math.Ceil(float64(s) * (1 - 0.01 - 3*math.Sqrt(0.01*0.99/float64(s)))))
	holds := func(t int64) bool {
		// t >= 0.99 s - 3 sqrt(0.0099 s)   <=>   3 sqrt(0.0099 s) >= 0.99 s - t
		lhs := new(big.Rat).Mul(big.NewRat(9, 1), new(big.Rat).Mul(big.NewRat(99, 10000), big.NewRat(s, 1))) // 9 * 0.0099 s
		d := new(big.Rat).Sub(new(big.Rat).Mul(big.NewRat(99, 100), big.NewRat(s, 1)), big.NewRat(t, 1))
		if d.Sign() <= 0 {
			return true
		}
		return lhs.Cmp(new(big.Rat).Mul(d, d)) >= 0
	}
	t := est + 2
	for holds(t - 1) {
		t--
	}
	for !holds(t) {
		t++
	}
	return t
}

func (c *hCtx) checkThreshold() {
	name := "threshold-exhaustive"
	max := 20000
	if c.req.Budget == "thorough" {
		max = 1000000
	}
	for s := 1; s <= max; s++ {
		c.resp.Cases[name]++
		if got, want := int64(Threshold(s)), exactThreshold(int64(s)); got != want {
			c.report(name, map[string]interface{}{"s": s}, fmt.Sprint(got), fmt.Sprint(want))
			return
		}
	}
	for _, kv := range [][2]int{{50, 48}, {20, 19}, {1000, 981}} {
		if Threshold(kv[0]) != kv[1] {
			c.report(name, map[string]interface{}{"s": kv[0]}, fmt.Sprint(Threshold(kv[0])), fmt.Sprint(kv[1]))
		}
	}
}

func (c *hCtx) checkThresholdQ() {
	name := "thresholdq-perm"
	edges := []float64{0, 0.1, 0.2, 0.3, 0.4, 0.5, 0.6, 0.7, 0.8, 0.9, 1.0, 0.0999999999, 0.8999999}
	for it := 0; it < 400; it++ {
		n := 1 + c.rng.Intn(60)
		q := make([]float64, n)
		for i := range q {
			if c.rng.Intn(3) == 0 {
				q[i] = edges[c.rng.Intn(len(edges))]
			} else {
				q[i] = c.rng.Float64()
			}
		}
		// reference: histogram + chi-square + Q(9/2, V/2)
		var h [10]float64
		for _, v := range q {
			j := int(math.Floor(v * 10))
			// the bins are defined with the float64 constants 0.1 ... 0.9: recompute by comparison
			j = 9
			for k, e := range []float64{0.1, 0.2, 0.3, 0.4, 0.5, 0.6, 0.7, 0.8, 0.9} {
				if v < e {
					j = k
					break
				}
			}
			h[j]++
		}
		V := 0.0
		for _, x := range h {
			e := float64(n) / 10
			V += (x - e) * (x - e) / e
		}
		want := randomness.Igamc(4.5, V/2)
		got := ThresholdQ(q)
		c.resp.Cases[name]++
		if math.Abs(got-want) > 1e-12 {
			c.report(name, map[string]interface{}{"q": q}, fmt.Sprint(got), fmt.Sprint(want))
			return
		}
		p := append([]float64(nil), q...)
		c.rng.Shuffle(len(p), func(i, j int) { p[i], p[j] = p[j], p[i] })
		if g2 := ThresholdQ(p); g2 != got {
			c.report(name, map[string]interface{}{"q": q, "permuted": p}, fmt.Sprint(g2), fmt.Sprint(got)+" (order independent)")
			return
		}
	}
}

// C11
func (c *hCtx) checkSingle() {
	name := "single-detect"
	lens := []int{39, 40, 41, 1279, 1280, 1281}
	for nb := 0; nb <= 4096; nb += 1 + nb/16 {
		lens = append(lens, nb)
	}
	for _, nb := range lens {
		for rep := 0; rep < 3; rep++ {
			data := goodBytes(c.req.Seed+int64(nb*7+rep), nb+8)
			if rep == 1 {
				for i := range data {
					data[i] &= 0x77
				}
			}
			if rep == 2 {
				// constant byte patterns: verdicts that differ between m = 2, 4 and 8 (e.g. 0x1B is uniform for m = 2 only)
				pat := []byte{0x1B, 0x55, 0xF0, 0x69}[nb%4]
				if nb == 40 || nb == 39 || nb == 41 || nb == 1280 || nb == 1279 {
					pat = 0x1B
				}
				for i := range data {
					data[i] = pat
				}
			}
			r := &sliceReader{b: data, failAt: -1}
			ok, err := SingleDetect(r, nb)
			c.resp.Cases[name]++
			in := map[string]interface{}{"numByte": nb, "rep": rep, "seed": c.req.Seed}
			if r.pos != nb {
				c.report(name, in, fmt.Sprintf("%d bytes consumed", r.pos), fmt.Sprint(nb))
				return
			}
			if nb < 16 {
				if ok || err == nil {
					c.report(name, in, fmt.Sprint(ok, err), "(false, error) below 16 bytes")
					return
				}
				continue
			}
			m := 4
			if nb*8 < 320 {
				m = 2
			} else if nb*8 >= 10240 {
				m = 8
			}
			bits := randomness.B2bitArr(data[:nb])
			p, _ := randomness.PokerProto(bits, m)
			if err != nil || ok != (p >= 0.01) {
				c.report(name, in, fmt.Sprint(ok, err), fmt.Sprintf("(%v, nil) with m=%d, P=%g", p >= 0.01, m, p))
				return
			}
		}
	}
}

func TestVerifHarness(t *testing.T) {
	reqPath := os.Getenv("VERIF_HARNESS_REQ")
	outPath := os.Getenv("VERIF_HARNESS_OUT")
	if reqPath == "" || outPath == "" {
		t.Skip("harness not requested")
	}
	var req hReq
	b, err := os.ReadFile(reqPath)
	if err != nil {
		t.Fatal(err)
	}
	if err := json.Unmarshal(b, &req); err != nil {
		t.Fatal(err)
	}
	resp := &hResp{Cases: map[string]int{}, MaxErr: map[string]float64{}}
	c := &hCtx{req: &req, resp: resp, rng: rand.New(rand.NewSource(req.Seed + 1))}
	// silence the fast variants' fmt.Println(counters)
	devnull, _ := os.OpenFile(os.DevNull, os.O_WRONLY, 0)
	saved := os.Stdout
	os.Stdout = devnull
	for _, name := range req.Checks {
		switch name {
		case "chunking":
			c.checkChunking()
		case "decision-rule":
			c.checkDecisionRule()
		case "igamc-tail":
			c.checkIgamcTail()
		case "failing-source":
			c.checkFailing()
		case "fast-vs-seq":
			c.checkFastVsSeq()
		case "stuck-at":
			c.checkStuck()
		case "threshold-exhaustive":
			c.checkThreshold()
		case "thresholdq-perm":
			c.checkThresholdQ()
		case "single-detect":
			c.checkSingle()
		default:
			resp.Errors = append(resp.Errors, "unknown check "+name)
		}
	}
	os.Stdout = saved
	out, _ := json.MarshalIndent(resp, "", " ")
	if err := os.WriteFile(outPath, out, 0644); err != nil {
		t.Fatal(err)
	}
}
