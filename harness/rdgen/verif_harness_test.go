package main

// Replay harness for the sample generator (C20): builds the tool, runs it with -o into a scratch directory and
// lists what it created.

import (
	"encoding/json"
	"fmt"
	"io/ioutil"
	"os"
	"os/exec"
	"path/filepath"
	"sort"
	"testing"
)

type hReq struct {
	Checks []string               `json:"checks"`
	Seed   int64                  `json:"seed"`
	Budget string                 `json:"budget"`
	Input  map[string]interface{} `json:"input,omitempty"`
}
type hFinding struct {
	Check    string      `json:"check"`
	Input    interface{} `json:"input"`
	Observed string      `json:"observed"`
	Expected string      `json:"expected"`
}
type hResp struct {
	Findings []hFinding         `json:"findings"`
	Cases    map[string]int     `json:"cases"`
	MaxErr   map[string]float64 `json:"max_abs_err"`
	Errors   []string           `json:"errors,omitempty"`
}

func listDir(d string) []string {
	var out []string
	filepath.Walk(d, func(p string, fi os.FileInfo, err error) error {
		if err == nil && fi != nil && !fi.IsDir() {
			rel, _ := filepath.Rel(d, p)
			out = append(out, fmt.Sprintf("%s(%d)", rel, fi.Size()))
		}
		return nil
	})
	sort.Strings(out)
	return out
}

func TestVerifHarness(t *testing.T) {
	reqPath := os.Getenv("VERIF_HARNESS_REQ")
	outPath := os.Getenv("VERIF_HARNESS_OUT")
	if reqPath == "" || outPath == "" {
		t.Skip("harness not requested")
	}
	var req hReq
	b, _ := ioutil.ReadFile(reqPath)
	json.Unmarshal(b, &req)
	resp := &hResp{Cases: map[string]int{}, MaxErr: map[string]float64{}}
	tmp, err := ioutil.TempDir("", "vc-c20-")
	if err != nil {
		t.Fatal(err)
	}
	defer os.RemoveAll(tmp)
	bin := filepath.Join(tmp, "rdgen")
	if out, err := exec.Command("go", "build", "-o", bin, ".").CombinedOutput(); err != nil {
		resp.Errors = append(resp.Errors, "build failed: "+string(out))
	} else {
		type tc struct {
			s, n int
			o    string
		}
		cases := []tc{{3, 800, "out"}, {5, 20000, filepath.Join(tmp, "abs", "nested")}, {2, 8, "a/b/c"}, {3, 160, "reused"}}
		for _, c := range cases {
			work := filepath.Join(tmp, fmt.Sprintf("w%d", resp.Cases["output-dir"]))
			os.MkdirAll(work, 0755)
			if c.o == "reused" {
				// the output directory already holds longer sample files of an earlier run: they must be replaced, not overlaid
				os.MkdirAll(filepath.Join(work, c.o), 0755)
				for i := 0; i < c.s; i++ {
					ioutil.WriteFile(filepath.Join(work, c.o, fmt.Sprintf("random%d.bin", i)), make([]byte, 1000), 0644)
				}
			}
			cmd := exec.Command(bin, "-s", fmt.Sprint(c.s), "-n", fmt.Sprint(c.n), "-o", c.o)
			cmd.Dir = work
			out, runErr := cmd.CombinedOutput()
			resp.Cases["output-dir"]++
			want := c.o
			if !filepath.IsAbs(want) {
				want = filepath.Join(work, want)
			}
			got := listDir(want)
			var exp []string
			for i := 0; i < c.s; i++ {
				exp = append(exp, fmt.Sprintf("random%d.bin(%d)", i, c.n/8))
			}
			sort.Strings(exp)
			in := map[string]interface{}{"s": c.s, "n": c.n, "o": c.o}
			if runErr != nil {
				resp.Findings = append(resp.Findings, hFinding{"output-dir", in, "exit: " + runErr.Error() + " " + string(out), "terminates normally"})
				break
			}
			if fmt.Sprint(got) != fmt.Sprint(exp) {
				resp.Findings = append(resp.Findings, hFinding{"output-dir", in, fmt.Sprintf("requested directory contains %v; elsewhere under the working directory: %v", got, listDir(work)), fmt.Sprintf("%v inside the requested directory", exp)})
				break
			}
		}
	}
	o, _ := json.MarshalIndent(resp, "", " ")
	ioutil.WriteFile(outPath, o, 0644)
}
