#!/usr/bin/env python3
"""store_seed.py <srcdir> <id> <property> <demo-dir> <caught-by(comma)> <witness:yes|no|mixed> <needs...>
Copies a confirmed seeded change into /verif/seeded/<id>/ with meta.json."""
import sys, os, shutil, json, subprocess
src, sid, prop, demodir, caught, witness = sys.argv[1:7]
needs = " ".join(sys.argv[7:])
dst = f"/verif/seeded/{sid}"
os.makedirs(dst, exist_ok=True)
for f in ("patch.diff", "demo_test.go", "README.md"):
    if os.path.exists(os.path.join(src, f)):
        # keep Go test out of the verif module's package tree: store as .txt
        shutil.copy(os.path.join(src, f), os.path.join(dst, f if f != "demo_test.go" else "demo_test.go.txt"))
conf = ""
for log in ("/tmp/seed/confirm_batch1.log", "/tmp/seed/confirm_batch2.log", "/tmp/seed/confirm_batch3.log", "/tmp/seed/confirm_batch4.log", "/tmp/seed/confirm_batch5.log", "/tmp/seed/confirm_batch6.log", "/tmp/seed/confirm_batch7.log", "/tmp/seed/confirm_batch8.log", "/tmp/seed/confirm_batch9.log", "/tmp/seed/confirm_batch10.log", "/tmp/seed/confirm_batch11.log", "/tmp/seed/confirm_batch12.log", "/tmp/seed/confirm_batch13.log"):
    if os.path.exists(log):
        t = open(log).read()
        key = "#### " + sid.replace("-", "/")
        if key in t:
            seg = t.split(key, 1)[1].split("####", 1)[0]
            conf = seg.strip()
meta = {
    "id": sid, "breaks_property": prop,
    "needs_to_manifest": needs,
    "demo": {"file": "demo_test.go.txt", "place_in": demodir, "run": "go test -vet=off -count=1 -run <TestName> ./" + demodir},
    "confirmed_by_me": {"procedure": "tools/confirm_seed.sh in a scratch worktree of /repo HEAD: demo passes without the change, fails with it, full existing suite passes with it", "log": conf},
    "checks_run": [f"bin/vc check {p}" for p in caught.split(",") if p],
    "caught_by": [p for p in caught.split(",") if p],
    "replay_found_failing_input": witness,
}
json.dump(meta, open(os.path.join(dst, "meta.json"), "w"), indent=1, ensure_ascii=False)
print("stored", dst)
