#!/bin/bash
# usage: neutral_check.sh <dir-with-Nxx/patch.diff>...  — behaviour-preserving edits: every check that touches the edited
# package must stay quiet. Scratch worktree + scratch copy of /verif (neither /repo nor /verif/evidence is touched).
export GOFLAGS=-mod=mod GOPROXY=off GOSUMDB=off GOTOOLCHAIN=local
wt=/tmp/nt-wt-$$; home=/tmp/nt-home-$$
git -C /repo worktree add -q --detach $wt HEAD || exit 2
mkdir -p $home && rsync -a --exclude .git --exclude replays --exclude evidence /verif/ $home/ && mkdir -p $home/evidence
for d in "$@"; do
  id=$(basename $d)
  ( cd $wt && git checkout -q -- . && git apply $d/patch.diff ) || { echo "$id: PATCH DOES NOT APPLY"; continue; }
  files=$(grep '^+++ b/' $d/patch.diff | sed 's#+++ b/##' | tr '\n' ' ')
  checks=""
  for f in $files; do
    case $f in
      detect/*) checks="$checks C07 C08 C09 C10 C11 C12 C14";;
      fft/*) checks="$checks C05 C19";;
      tools/rddetector/*) checks="$checks C13";;
      tools/rdgen/*) checks="$checks C20";;
      *) checks="$checks C01 C02 C03 C04 C05 C14 C15 C16 C17 C18";;
    esac
  done
  checks=$(echo $checks | tr ' ' '\n' | sort -u | tr '\n' ' ')
  line="$id [$files]:"
  for p in $checks; do
    out=$(cd $home && VERIF_REPO=$wt VERIF_HOME=$home ./bin/vc check $p --tier quick 2>&1); rc=$?
    if [ $rc -eq 0 ]; then line="$line $p=ok"; else first=$(echo "$out" | grep -m1 -A1 FAILED | tr '\n' ' ' | cut -c1-260); line="$line $p=ALARM{$first}"; fi
  done
  echo "$line"
done
git -C /repo worktree remove --force $wt; rm -rf $home
