#!/usr/bin/env python3
"""Refreshes the functions / obligations / seconds columns of DESIGN.md A.3 from /verif/evidence/*.json."""
import json, re
p = '/verif/DESIGN.md'; s = open(p).read()
lines = s.split('\n'); out = []; inA3 = False
for l in lines:
    if l.startswith('### A.3'): inA3 = True
    if l.startswith('### A.4'): inA3 = False
    m = re.match(r'\| (C\d\d) \| ([^|]*)\| ([^|]*)\| ([^|]*)\| ([^|]*)\|(.*)$', l)
    if inA3 and m:
        pid = m.group(1)
        try:
            d = json.load(open(f'/verif/evidence/{pid}.json')); c = d['coverage']
            l = f"| {pid} | {m.group(2)}| {len(c['functions_under_contract'])} | {c['obligations']} | {round(d.get('wall_s', 0))} |{m.group(6)}"
        except FileNotFoundError:
            pass
    out.append(l)
open(p, 'w').write('\n'.join(out))
print("A.3 refreshed")
