#!/bin/bash
# usage: try_seed.sh <patch.diff> <prop> [<prop>...]   — applies a seeded change to /repo, runs the checks, reverts
patch=$1; shift
cd /repo || exit 2
if git status --short | grep -v data.bin | grep -q .; then echo "REFUSING: /repo has uncommitted changes (commit them first)"; exit 2; fi
git apply --check "$patch" || { echo "PATCH DOES NOT APPLY"; exit 2; }
git apply "$patch"
for p in "$@"; do
  out=$(cd /verif && ./bin/vc check $p 2>&1)
  rc=$?
  echo "== $p rc=$rc: $(echo "$out" | grep -c '^VIOLATION') violation line(s); $(echo "$out" | tail -1)"
  echo "$out" | grep "FAILED" | head -4 | cut -c1-220
  echo "$out" | grep "^VIOLATION" | head -3 | cut -c1-200
done
git checkout -- . 2>/dev/null
git status --short | grep -v data.bin
# the evidence files committed in /verif must describe the unchanged tree: put them back
git -C /verif checkout -- evidence 2>/dev/null; rm -rf /verif/replays
