#!/bin/bash
# usage: seed_regress.sh [<seed-id>...]
# Re-runs every stored seeded change (or the named ones) against the listed checks, in a scratch worktree of /repo HEAD
# and a scratch copy of /verif (so neither /repo nor /verif/evidence is touched); writes /verif/seeded/<id>/result.json.
export GOFLAGS=-mod=mod GOPROXY=off GOSUMDB=off GOTOOLCHAIN=local
wt=/tmp/regress-wt-$$; home=/tmp/regress-home-$$
git -C /repo worktree add -q --detach $wt HEAD || exit 2
mkdir -p $home && rsync -a --exclude .git --exclude replays --exclude evidence /verif/ $home/ && mkdir -p $home/evidence
ids="$@"; [ -z "$ids" ] && ids=$(ls /verif/seeded)
for id in $ids; do
  d=/verif/seeded/$id
  [ -f $d/patch.diff ] || continue
  ( cd $wt && git checkout -q -- . && git apply $d/patch.diff ) || { echo "$id: PATCH DOES NOT APPLY"; continue; }
  props=$(python3 -c "import json;m=json.load(open('$d/meta.json'));print(' '.join(dict.fromkeys([m['breaks_property']]+m['caught_by'])))")
  res="{"
  for p in $props; do
    [ -f $home/props/$p.spec ] || continue
    t0=$(date +%s)
    out=$(cd $home && VERIF_REPO=$wt VERIF_HOME=$home ./bin/vc check $p --tier quick 2>&1); rc=$?
    t1=$(date +%s)
    nv=$(echo "$out" | grep -c '^VIOLATION'); nw=$(echo "$out" | grep '^VIOLATION' | grep -vc 'no-failing-input-found')
    first=$(echo "$out" | grep -m1 "FAILED" | cut -c1-160 | tr -d '"\\')
    echo "$id $p rc=$rc violations=$nv with-witness=$nw $((t1-t0))s | $first"
    res="$res\"$p\": {\"exit\": $rc, \"violation_lines\": $nv, \"with_failing_input\": $nw, \"seconds\": $((t1-t0)), \"first_failed\": \"$first\"},"
  done
  res="${res%,}}"
  echo "$res" | python3 -c "import json,sys;json.dump({'repo_head':'$(git -C /repo rev-parse --short HEAD)','tier':'quick','checks':json.load(sys.stdin)},open('$d/result.json','w'),indent=1,ensure_ascii=False)"
done
git -C /repo worktree remove --force $wt; rm -rf $home
