#!/usr/bin/env python3
"""Generates the wrapper / runner contract blocks (helper contracts for /repo/verif_contracts.go) and the
pinned C15 posts (/verif/props/C15.gen) from one table. The generated text is committed; re-run after edits."""
import sys

# (name, params, callee, callee-args (spec exprs), requires, cases, nres)
W = []
def w(name, params, callee, args, req, cases=None, nres=2):
    W.append(dict(name=name, params=params, callee=callee, args=args, req=req, cases=cases or [], nres=nres))

E = "expand(data), 8*len(data)"
w("FrequencyWithinBlockTest", "bits", "FrequencyWithinBlockProto", "bits, selectM#0(len(bits))", "len(bits) >= 10")
w("FrequencyWithinBlockTestBytes", "data, m", "FrequencyWithinBlockProto", E+", m", "1 <= m && m <= 8*len(data)")
w("PokerTest", "bits", "PokerProto", "bits, 8", "len(bits) >= 8")
w("OverlappingTemplateMatchingTest", "bits", "OverlappingTemplateMatchingProto", "bits, 5", "len(bits) >= 5", nres=4)
w("OverlappingTemplateMatchingTestBytes", "data, m", "OverlappingTemplateMatchingProto", E+", m", "len(data) >= 1", ["m in {2, 3, 5, 7}"], nres=4)
w("ApproximateEntropyTest", "bits", "ApproximateEntropyProto", "bits, 5", "len(bits) >= 1")
w("ApproximateEntropyTestBytes", "data, m", "ApproximateEntropyProto", E+", m", "len(data) >= 1", ["m in {2, 5, 7}"])
w("RunsTestBytes", "data", "RunsTest", E, "len(data) >= 1")
w("RunsDistributionTestBytes", "data", "RunsDistributionTest", E, "len(data) >= 13")
w("LongestRunOfOnesInABlockTest", "bits, checkOne", "LongestRunOfOnesInABlockProto", "bits, checkOne", "len(bits) >= 128", ["checkOne in {true, false}"])
w("LongestRunOfOnesInABlockTestBytes", "data, checkOne", "LongestRunOfOnesInABlockProto", E+", checkOne", "len(data) >= 16", ["checkOne in {true, false}"])
w("BinaryDerivativeTest", "bits, k", "BinaryDerivativeProto", "bits, k", "len(bits) >= 7 && 1 <= k && k < len(bits)")
w("BinaryDerivativeTestBytes", "data, k", "BinaryDerivativeProto", E+", k", "len(data) >= 1 && 1 <= k && k < 8*len(data)")
w("AutocorrelationTest", "bits, d", "AutocorrelationProto", "bits, d", "len(bits) >= 16 && 1 <= d && d < len(bits)")
w("AutocorrelationTestBytes", "data, d", "AutocorrelationProto", E+", d", "len(data) >= 2 && 1 <= d && d < 8*len(data)")
w("MatrixRankTest", "bits", "MatrixRankProto", "bits, 32, 32", "len(bits) >= 1024")
w("MatrixRankTestBytes", "data, M, Q", "MatrixRankProto", E+", M, Q", "len(data) >= 128", ["M in {32}", "Q in {32}"])
w("CumulativeTestBytes", "data, forward", "CumulativeTest", E+", forward", "len(data) >= 1", ["forward in {true, false}"])
w("LinearComplexityTest", "bits", "LinearComplexityProto", "bits, 500", "len(bits) >= 500")
w("LinearComplexityTestBytes", "data, m", "LinearComplexityProto", E+", m", "1 <= m && m <= 8*len(data)")
w("MaurerUniversalTestBytes", "data", "MaurerUniversalTest", E, "len(data) >= 1121")
w("DiscreteFourierTransformTestBytes", "data", "DiscreteFourierTransformTest", E, "1 <= len(data) && len(data) <= 16777216")

# runners: (name, callee, args, requires, nres)
R = [
 ("MonoBitFrequency", "MonoBitFrequencyTestBytes", "data", "len(data) >= 1", 2),
 ("FrequencyWithinBlock", "FrequencyWithinBlockTest", E, "len(data) >= 2", 2),
 ("Poker", "PokerTestBytes", "data, 8", "len(data) >= 1", 2),
 ("OverlappingTemplateMatching", "OverlappingTemplateMatchingTestBytes", "data, 5", "len(data) >= 1", 4),
 ("Runs", "RunsTestBytes", "data", "len(data) >= 1", 2),
 ("RunsDistribution", "RunsDistributionTestBytes", "data", "len(data) >= 13", 2),
 ("LongestRunOfOnesInABlock", "LongestRunOfOnesInABlockTestBytes", "data, true", "len(data) >= 16", 2),
 ("BinaryDerivative", "BinaryDerivativeTestBytes", "data, 7", "len(data) >= 1", 2),
 ("Autocorrelation", "AutocorrelationTestBytes", "data, 16", "len(data) >= 3", 2),
 ("MatrixRank", "MatrixRankTestBytes", "data, 32, 32", "len(data) >= 128", 2),
 ("Cumulative", "CumulativeTestBytes", "data, true", "len(data) >= 1", 2),
 ("ApproximateEntropy", "ApproximateEntropyTestBytes", "data, 5", "len(data) >= 1", 2),
 ("LinearComplexity", "LinearComplexityTestBytes", "data, 500", "len(data) >= 63", 2),
 ("MaurerUniversal", "MaurerUniversalTestBytes", "data", "len(data) >= 1121", 2),
 ("DiscreteFourierTransform", "DiscreteFourierTransformTestBytes", "data", "1 <= len(data) && len(data) <= 16777216", 2),
]

def wrapper_post(x):
    return [f"r{k} == {x['callee']}#{k}({x['args']})" for k in range(x['nres'])]

def runner_post(name, callee, args, nres):
    if nres == 4:
        return [f"r0 != nil && fresh(r0)",
                f"r0.P == {callee}#0({args}) && r0.P2 == {callee}#1({args}) && r0.Q == {callee}#2({args}) && r0.Q2 == {callee}#3({args})",
                f"r0.Pass == (minR(r0.P, r0.P2) >= Alpha)"]
    return [f"r0 != nil && fresh(r0)",
            f"r0.P == {callee}#0({args}) && r0.Q == {callee}#1({args})",
            f"r0.Pass == (r0.P >= Alpha)"]

mode = sys.argv[1]
out = []
if mode == "contracts":
    out.append("// ---------------------------------------------------------------------------------------------")
    out.append("// wrappers and registry runners (generated by /verif/tools/gen_wrappers.py)")
    out.append("")
    for x in W:
        out.append(f"//@ func {x['name']}")
        for c in x['cases']:
            out.append(f"//@   cases {c}")
        out.append(f"//@   requires {x['req']}")
        out.append("//@   modifies nothing")
        out.append("//@   pure")
        for p in wrapper_post(x):
            out.append(f"//@   ensures {p}")
        out.append("")
    for (name, callee, args, req, nres) in R:
        out.append(f"//@ func {name}")
        out.append(f"//@   requires {req}")
        out.append("//@   modifies nothing")
        out.append("//@   pure")
        for p in runner_post(name, callee, args, nres):
            out.append(f"//@   ensures {p}")
        out.append("")
else:
    for x in W:
        out.append(f"func randomness.{x['name']}")
        for p in wrapper_post(x):
            out.append(f"  ensures {p}")
        out.append("")
    for (name, callee, args, req, nres) in R:
        out.append(f"func randomness.{name}")
        for p in runner_post(name, callee, args, nres):
            out.append(f"  ensures {p}")
        out.append("")
print("\n".join(out))
