#!/bin/bash
# usage: crosstalk.sh "<checks>" <seed-id>...   — which checks alarm on which stored seeded change (scratch worktree; /repo untouched)
export GOFLAGS=-mod=mod GOPROXY=off GOSUMDB=off GOTOOLCHAIN=local
checks=$1; shift
wt=/tmp/xt-wt-$$; home=/tmp/xt-home-$$
git -C /repo worktree add -q --detach $wt HEAD || exit 2
mkdir -p $home && rsync -a --exclude .git --exclude replays --exclude evidence /verif/ $home/ && mkdir -p $home/evidence
for id in "$@"; do
  d=/verif/seeded/$id
  ( cd $wt && git checkout -q -- . && git apply $d/patch.diff ) || { echo "$id: PATCH DOES NOT APPLY"; continue; }
  breaks=$(python3 -c "import json;print(json.load(open('$d/meta.json'))['breaks_property'])")
  line="$id(breaks $breaks):"
  for p in $checks; do
    out=$(cd $home && VERIF_REPO=$wt VERIF_HOME=$home ./bin/vc check $p --tier quick 2>&1); rc=$?
    nw=$(echo "$out" | grep '^VIOLATION' | grep -vc 'no-failing-input-found')
    if [ $rc -eq 0 ]; then line="$line $p=ok"; else line="$line $p=ALARM(w$nw)"; fi
  done
  echo "$line"
done
git -C /repo worktree remove --force $wt; rm -rf $home
