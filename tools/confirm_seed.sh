#!/bin/bash
# usage: confirm_seed.sh <seeddir> <pkgdir-for-demo> -> prints CONFIRMED / reason. Uses a scratch worktree /tmp/confirm-wt.
# seeddir contains patch.diff and demo_test.go
export GOFLAGS=-mod=mod GOPROXY=off GOSUMDB=off GOTOOLCHAIN=local
sd=$1; pkg=$2; wt=/tmp/confirm-wt-$$
git -C /repo worktree add -q --detach $wt HEAD || exit 2
cd $wt
find . -name verif_contracts.go -delete
cp $sd/demo_test.go $pkg/zz_demo_seed_test.go
tn=$(grep -o 'func Test[A-Za-z0-9_]*' $sd/demo_test.go | sed 's/func //' | paste -sd'|')
base=$(cd $pkg && go test -vet=off -count=1 -timeout 600s -run "^(${tn})\$" . 2>&1 | tail -1)
git apply $sd/patch.diff || { echo "NOAPPLY"; cd /; git -C /repo worktree remove --force $wt; exit 1; }
mut=$(cd $pkg && go test -vet=off -count=1 -timeout 600s -run "^(${tn})\$" . 2>&1 | tail -1)
rm -f $pkg/zz_demo_seed_test.go
suite=$(go test -vet=off -count=1 -timeout 25m ./... 2>&1 | grep -v "no test files" | tr '\n' ' ')
cd /
git -C /repo worktree remove --force $wt
echo "demo-without-change: $base"
echo "demo-with-change:    $mut"
echo "suite-with-change:   $suite"
case "$base" in ok*) ;; *) echo "NOT CONFIRMED (demo fails without change)"; exit 1;; esac
case "$mut" in FAIL*|*FAIL*) ;; *) echo "NOT CONFIRMED (demo passes with change)"; exit 1;; esac
case "$suite" in *FAIL*) echo "NOT CONFIRMED (suite fails)"; exit 1;; esac
echo CONFIRMED
