#!/usr/bin/env python3
"""Regenerates the seeded-change table (DESIGN.md section A.7) from /verif/seeded/*/meta.json and result.json."""
import json, glob, os, re
rows = []
for mf in sorted(glob.glob('/verif/seeded/*/meta.json')):
    d = os.path.dirname(mf)
    m = json.load(open(mf))
    res = {}
    if os.path.exists(d + '/result.json'):
        res = json.load(open(d + '/result.json')).get('checks', {})
    caught = []
    for p in dict.fromkeys([m['breaks_property']] + m['caught_by']):
        r = res.get(p)
        if r is None:
            if p in m['caught_by']:
                caught.append(f"{p} (as stored)")
            continue
        if r['exit'] == 1 and r['violation_lines'] > 0:
            w = "input found" if r['with_failing_input'] > 0 else "no-failing-input-found"
            first = re.sub(r'\s*\[.*', '', r.get('first_failed', '').replace('FAILED', '').strip())
            caught.append(f"{p}: {w}, {r['seconds']} s, first `{first}`")
        else:
            caught.append(f"{p}: **not caught**")
    needs = m['needs_to_manifest'].replace('|', '/')
    rows.append(f"| {m['id']} | {m['breaks_property']} | {needs} | {'; '.join(caught)} |")
table = "| seed | breaks | needs, to manifest | quick checks that report it (last regression run) |\n|---|---|---|---|\n" + "\n".join(rows) + "\n"
p = '/verif/DESIGN.md'
s = open(p).read()
b, e = '<!-- SEED-TABLE-BEGIN -->', '<!-- SEED-TABLE-END -->'
assert b in s and e in s
s = s[:s.index(b) + len(b)] + "\n" + table + s[s.index(e):]
open(p, 'w').write(s)
print(len(rows), "rows")
