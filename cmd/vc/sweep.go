package main

// Zero-annotation package sweep (C18): no statement in any package of the repository assigns to, or through,
// the package-level tables (parameters, TestMethodArr) or takes their elements' addresses.

import (
	"fmt"
	"go/ast"
	"go/types"
	"sort"
)

func (e *Engine) sweepGlobals() []*Obligation {
	tables := map[*types.Var]bool{}
	for _, p := range e.pkgs {
		sc := p.Types.Scope()
		for _, n := range sc.Names() {
			if v, ok := sc.Lookup(n).(*types.Var); ok {
				if _, isSl := v.Type().Underlying().(*types.Slice); isSl {
					tables[v] = true
				}
			}
		}
	}
	var out []*Obligation
	var names []string
	for _, p := range e.pkgs {
		names = append(names, e.pkgName(p))
	}
	sort.Strings(names)
	for _, pn := range names {
		p := e.pkgs[pn]
		viol := 0
		stmts := 0
		root := func(ex ast.Expr) *types.Var {
			for {
				switch t := ex.(type) {
				case *ast.ParenExpr:
					ex = t.X
				case *ast.IndexExpr:
					ex = t.X
				case *ast.SelectorExpr:
					if id, ok := t.X.(*ast.Ident); ok {
						if _, isPkg := p.TypesInfo.ObjectOf(id).(*types.PkgName); isPkg {
							v, _ := p.TypesInfo.ObjectOf(t.Sel).(*types.Var)
							return v
						}
					}
					ex = t.X
				case *ast.SliceExpr:
					ex = t.X
				case *ast.Ident:
					v, _ := p.TypesInfo.ObjectOf(t).(*types.Var)
					return v
				default:
					return nil
				}
			}
		}
		var where []string
		check := func(lhs ast.Expr, n ast.Node) {
			stmts++
			if v := root(lhs); v != nil && tables[v] {
				viol++
				where = append(where, fmt.Sprintf("%s assigns %s", e.fset.Position(n.Pos()), v.Name()))
			}
		}
		for _, f := range p.Syntax {
			ast.Inspect(f, func(n ast.Node) bool {
				switch s := n.(type) {
				case *ast.AssignStmt:
					if s.Tok.String() == ":=" {
						return true
					}
					for _, l := range s.Lhs {
						check(l, s)
					}
				case *ast.IncDecStmt:
					check(s.X, s)
				case *ast.UnaryExpr:
					if s.Op.String() == "&" {
						if v := root(s.X); v != nil && tables[v] {
							viol++
							where = append(where, fmt.Sprintf("%s takes the address of an element of %s", e.fset.Position(n.Pos()), v.Name()))
						}
					}
				}
				return true
			})
		}
		o := &Obligation{Name: pn + "/frame/global-tables", Class: "frame", Func: pn, Src: fmt.Sprintf("no assignment to package-level tables in package %s (%d assignment statements scanned)", pn, stmts), Solver: "syntactic", Expect: "unsat"}
		if viol == 0 {
			o.Status = "discharged"
		} else {
			o.Status = "failed"
			o.Output = fmt.Sprint(where)
		}
		out = append(out, o)
	}
	return out
}
