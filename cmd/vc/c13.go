package main

// C13: the expected column list of the batch detector is derived mechanically from the header constants
// on every run: header column j -> (test, parameter, which of P/Q/P1/Q1/P2/Q2) -> library entry point.

import (
	"fmt"
	"go/constant"
	"go/types"
	"regexp"
	"strings"
)

type c13Col struct {
	raw   string
	which string // P, Q, P1, Q1, P2, Q2
	name  string
	param string // "m=4", "前向", ...
}

var c13ColRe = regexp.MustCompile(`^\[\s*\d+\]\s+(P1|Q1|P2|Q2|P|Q)\s+(\S+)(?:\s+(.*))?$`)

func c13Parse(header string) ([]c13Col, error) {
	header = strings.TrimSuffix(header, "\n")
	parts := strings.Split(header, ",")
	if len(parts) < 2 {
		return nil, fmt.Errorf("header has no columns")
	}
	var cols []c13Col
	for _, p := range parts[1:] {
		m := c13ColRe.FindStringSubmatch(strings.TrimSpace(p))
		if m == nil {
			return nil, fmt.Errorf("cannot parse header column %q", p)
		}
		cols = append(cols, c13Col{raw: p, which: m[1], name: m[2], param: strings.TrimSpace(m[3])})
	}
	return cols, nil
}

func paramVal(p, key string) (string, bool) {
	for _, f := range strings.Fields(p) {
		if strings.HasPrefix(f, key+"=") {
			return strings.TrimPrefix(f, key+"="), true
		}
	}
	return "", false
}

// c13Expr: the library value a header column names, as a contract expression over the file's bytes.
func c13Expr(c c13Col) (string, error) {
	const FB = "filebytes(filename), filelen(filename)"
	const BITS = "expand(filebytes(filename)), 8*filelen(filename)"
	k := map[string]int{"P": 0, "Q": 1}
	idx2 := func() (int, error) {
		v, ok := k[c.which]
		if !ok {
			return 0, fmt.Errorf("column %q: %s is not valid for a one-value test", c.raw, c.which)
		}
		return v, nil
	}
	need := func(key string) (string, error) {
		v, ok := paramVal(c.param, key)
		if !ok {
			return "", fmt.Errorf("column %q: parameter %s= missing", c.raw, key)
		}
		return v, nil
	}
	switch {
	case c.name == "单比特频数检测":
		i, err := idx2()
		return fmt.Sprintf("MonoBitFrequencyTestBytes#%d(%s)", i, FB), err
	case c.name == "块内频数检测":
		i, err := idx2()
		if err != nil {
			return "", err
		}
		m, err := need("m")
		return fmt.Sprintf("FrequencyWithinBlockProto#%d(%s, %s)", i, BITS, m), err
	case c.name == "扑克检测":
		i, err := idx2()
		if err != nil {
			return "", err
		}
		m, err := need("m")
		return fmt.Sprintf("PokerTestBytes#%d(%s, %s)", i, FB, m), err
	case c.name == "重叠子序列检测":
		i, ok := map[string]int{"P1": 0, "P2": 1, "Q1": 2, "Q2": 3}[c.which]
		if !ok {
			return "", fmt.Errorf("column %q: overlapping test needs P1/P2/Q1/Q2", c.raw)
		}
		m, err := need("m")
		return fmt.Sprintf("OverlappingTemplateMatchingProto#%d(%s, %s)", i, BITS, m), err
	case c.name == "游程总数检测":
		i, err := idx2()
		return fmt.Sprintf("RunsTest#%d(%s)", i, BITS), err
	case c.name == "游程分布检测":
		i, err := idx2()
		return fmt.Sprintf("RunsDistributionTest#%d(%s)", i, BITS), err
	case strings.HasPrefix(c.name, "块内最大") && strings.HasSuffix(c.name, "游程检测"):
		i, err := idx2()
		one := "true"
		if strings.Contains(c.name, "0") {
			one = "false"
		}
		return fmt.Sprintf("LongestRunOfOnesInABlockProto#%d(%s, %s)", i, BITS, one), err
	case c.name == "二元推导检测":
		i, err := idx2()
		if err != nil {
			return "", err
		}
		kk, err := need("k")
		return fmt.Sprintf("BinaryDerivativeProto#%d(%s, %s)", i, BITS, kk), err
	case c.name == "自相关检测":
		i, err := idx2()
		if err != nil {
			return "", err
		}
		d, err := need("d")
		return fmt.Sprintf("AutocorrelationProto#%d(%s, %s)", i, BITS, d), err
	case c.name == "矩阵秩检测":
		i, err := idx2()
		return fmt.Sprintf("MatrixRankProto#%d(%s, 32, 32)", i, BITS), err
	case c.name == "累加和检测":
		i, err := idx2()
		fwd := "true"
		if strings.Contains(c.param, "后向") {
			fwd = "false"
		} else if !strings.Contains(c.param, "前向") {
			return "", fmt.Errorf("column %q: direction missing", c.raw)
		}
		return fmt.Sprintf("CumulativeTest#%d(%s, %s)", i, BITS, fwd), err
	case c.name == "近似熵检测":
		i, err := idx2()
		if err != nil {
			return "", err
		}
		m, err := need("m")
		return fmt.Sprintf("ApproximateEntropyProto#%d(%s, %s)", i, BITS, m), err
	case c.name == "线性复杂度检测" || c.name == "线型复杂度检测":
		i, err := idx2()
		if err != nil {
			return "", err
		}
		m, err := need("m")
		return fmt.Sprintf("LinearComplexityProto#%d(%s, %s)", i, BITS, m), err
	case strings.HasPrefix(c.name, "Maurer") || c.name == "通用统计检测":
		i, err := idx2()
		return fmt.Sprintf("MaurerUniversalTest#%d(%s)", i, BITS), err
	case c.name == "离散傅里叶检测":
		i, err := idx2()
		return fmt.Sprintf("DiscreteFourierTransformTest#%d(%s)", i, BITS), err
	}
	return "", fmt.Errorf("column %q: unknown test name %q", c.raw, c.name)
}

// c13Pinned builds the pinned block for one worker from its header constant.
func (e *Engine) c13Pinned(worker, headerConst string) (*FuncContract, error) {
	p := e.pkgs["rddetector"]
	if p == nil {
		return nil, fmt.Errorf("package tools/rddetector not loaded")
	}
	c, ok := p.Types.Scope().Lookup(headerConst).(*types.Const)
	if !ok {
		return nil, fmt.Errorf("constant %s not found in tools/rddetector", headerConst)
	}
	cols, err := c13Parse(constant.StringVal(c.Val()))
	if err != nil {
		return nil, fmt.Errorf("%s: %v", headerConst, err)
	}
	if len(cols)%2 != 0 {
		return nil, fmt.Errorf("%s: odd number of value columns", headerConst)
	}
	fc := &FuncContract{Name: "rddetector." + worker, Loops: map[int]*LoopContract{}, Props: map[string]bool{"C13": true}}
	add := func(src string) error {
		cl, err := mkClause(src, rawLine{src, "header:" + headerConst, 0})
		if err != nil {
			return err
		}
		fc.Anchors = append(fc.Anchors, AnchorClause{Kind: "assert", Anchor: "end loop 1", Clause: cl})
		return nil
	}
	n := len(cols) / 2
	if err := add(fmt.Sprintf("len(PArr) == %d && len(QArr) == %d", n, n)); err != nil {
		return nil, err
	}
	// the row writer emits P[0], Q[0], P[1], Q[1], ...: header column 2j is P[j], 2j+1 is Q[j]
	for j, col := range cols {
		ex, err := c13Expr(col)
		if err != nil {
			return nil, err
		}
		arr := "PArr"
		if j%2 == 1 {
			arr = "QArr"
		}
		if err := add(fmt.Sprintf("%s[%d] == %s", arr, j/2, ex)); err != nil {
			return nil, err
		}
		fc.Anchors[len(fc.Anchors)-1].Clause.Src = fmt.Sprintf("header column %q: %s[%d] == %s", strings.TrimSpace(col.raw), arr, j/2, ex)
	}
	return fc, nil
}
