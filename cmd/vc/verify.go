package main

import (
	"fmt"
	"go/ast"
	"go/token"
	"go/types"
	"sort"
	"strings"
)

type caseAssign struct {
	label string
	vals  map[string]string
}

func expandCases(cs []CaseSpec) []caseAssign {
	out := []caseAssign{{"", map[string]string{}}}
	for _, c := range cs {
		var next []caseAssign
		for _, o := range out {
			for _, v := range c.Vals {
				m := map[string]string{}
				for k, vv := range o.vals {
					m[k] = vv
				}
				m[c.Var] = v
				lbl := o.label
				if lbl != "" {
					lbl += ","
				}
				lbl += c.Var + "=" + v
				next = append(next, caseAssign{lbl, m})
			}
		}
		out = next
	}
	return out
}

// VerifyFunc generates all obligations of one function (every case), including pinned posts.
func (e *Engine) VerifyFunc(key string, pinned []*FuncContract, mode string) (obls []*Obligation, err error) {
	fd := e.decls[key]
	if fd == nil {
		return nil, fmt.Errorf("function %s not found in the repository (contract/code mismatch)", key)
	}
	c := e.contracts[key]
	if c == nil {
		return nil, fmt.Errorf("function %s has no contract", key)
	}
	for _, ca := range expandCases(c.Cases) {
		os, err := e.verifyCase(key, fd, c, pinned, ca, mode)
		if err != nil {
			return obls, err
		}
		obls = append(obls, os...)
	}
	return obls, nil
}

func (e *Engine) verifyCase(key string, fd *ast.FuncDecl, c *FuncContract, pinned []*FuncContract, ca caseAssign, mode string) (obls []*Obligation, err error) {
	p := e.declPkg[key]
	decls := []string{}
	x := &Exec{eng: e, pkg: p, fn: fd, key: key, contract: c, pinned: pinned, caseLbl: ca.label, caseVals: map[string]Term{},
		decls: &decls, declared: map[string]bool{}, oblNames: map[string]int{}, loopOrd: map[ast.Stmt]int{}, mode: mode}
	if x.mode == "" {
		x.mode = "R"
	}
	x.fuel = c.Fuel
	if x.fuel == 0 {
		x.fuel = 2
	}
	e.curFuel = x.fuel
	x.fnObj = p.TypesInfo.Defs[fd.Name].(*types.Func)
	defer func() {
		if r := recover(); r != nil {
			if ve, ok := r.(vcErr); ok {
				err = fmt.Errorf("%s: %s", key, string(ve))
				obls = x.obls
				return
			}
			// an engine fault must never look like a verdict or crash the check: report it as "cannot generate"
			err = fmt.Errorf("%s: internal error while generating obligations (construct outside the supported subset?): %v", key, r)
			obls = x.obls
		}
	}()
	// loop ordinals, pre-order
	var loopNodes []ast.Stmt
	ast.Inspect(fd.Body, func(n ast.Node) bool {
		switch s := n.(type) {
		case *ast.ForStmt:
			loopNodes = append(loopNodes, s)
		case *ast.RangeStmt:
			loopNodes = append(loopNodes, s)
		}
		return true
	})
	x.nLoops = len(loopNodes)
	ords := e.loopOrdinals(key, x.nLoops)
	present := map[int]bool{}
	for i, s := range loopNodes {
		x.loopOrd[s] = ords[i]
		present[ords[i]] = true
	}
	for ord := range c.Loops {
		if !present[ord] {
			fail("contract names loop %d but the function has no such loop any more (%d loops; contract/code mismatch)", ord, x.nLoops)
		}
	}
	st := &State{vars: map[types.Object]Value{}, heaps: map[string]Term{}, fheaps: map[string]Term{}, ghost: map[string]Term{}}
	x.alloc0 = x.declareOnce("alloc0", SInt)
	st.alloc = x.alloc0
	st.assume(Cmp(">=", x.alloc0, Int(100)), "alloc0")
	sig := x.fnObj.Type().(*types.Signature)
	bindParam := func(v *types.Var) {
		if v.Name() == "_" || v.Name() == "" {
			return
		}
		cname := v.Name()
		if _, ok := ca.vals[cname]; !ok {
			if old := e.aliasOld(key, cname); old != "" {
				cname = old // the contract's `cases` clause still uses the recorded spelling of this parameter
			}
		}
		if lit, ok := ca.vals[cname]; ok {
			t := x.caseLit(lit, x.modeSort(scalarSort(v.Type())))
			st.vars[v] = sc(t)
			x.caseVals[cname] = t
			x.caseVals[v.Name()] = t
			return
		}
		st.vars[v] = x.entryValue(st, v.Type(), v.Name())
	}
	if r := sig.Recv(); r != nil {
		x.recv = r
		bindParam(r)
	}
	for i := 0; i < sig.Params().Len(); i++ {
		x.params = append(x.params, sig.Params().At(i))
		bindParam(sig.Params().At(i))
	}
	for i := 0; i < sig.Results().Len(); i++ {
		r := sig.Results().At(i)
		x.results = append(x.results, r)
		if r.Name() != "" && r.Name() != "_" {
			st.vars[r] = x.zero(st, r.Type())
		}
	}
	for name := range ca.vals {
		if _, ok := x.caseVals[name]; !ok {
			fail("cases clause names %s which is not a parameter", name)
		}
	}
	x.pre = st.clone()
	x.pre.pc = nil
	// lifted lemmas: the lemma's requires must cover this function's requires (checked before they are assumed)
	for _, pb := range pinned {
		if !caseSelected(pb, x.caseVals, x.caseLbl) {
			continue
		}
		for li, lc := range pb.Lifts {
			ls := st.clone()
			lm, inst := x.liftInst(ls, x.specEnvPre(ls), lc)
			for _, r := range lm.Requires {
				ls.assume(asTerm(x.evalSpec(inst, r.E)), "lemma-requires")
			}
			for i, r := range c.Requires {
				g := asTerm(x.evalSpec(x.specEnvPre(ls), r.E))
				for j, cj := range splitConj(g) {
					x.oblige(ls, "lift", fmt.Sprintf("lift/%s#%d/requires#%d.%d", lm.Name, li+1, i+1, j+1), cj, token.NoPos, "requires of "+lm.Name+" imply: "+r.Src)
				}
			}
		}
	}
	// requires
	envPre := x.specEnvPre(st)
	for _, r := range c.Requires {
		st.assume(asTerm(x.evalSpec(envPre, r.E)), "requires")
	}
	for _, pb := range pinned {
		for _, r := range pb.Requires {
			env := x.specEnvPre(st)
			env.lets = append(append([]LetDef{}, env.lets...), pb.Lets...)
			st.assume(asTerm(x.evalSpec(env, r.E)), "requires(pinned)")
		}
	}
	// modifies / reads
	for _, m := range c.Modifies {
		if strings.HasPrefix(m, "wraps:") {
			continue
		}
		star := strings.HasSuffix(m, "[*]")
		name := strings.TrimSuffix(m, "[*]")
		v := x.specIdent(envPre, &EIdent{Name: name})
		x.modSpecs = append(x.modSpecs, modSpec{param: name, star: star, v: v})
	}
	for _, rd := range c.Reads {
		v, ok := x.specIdent(envPre, &EIdent{Name: rd.Param}).(SliceV)
		if !ok {
			fail("reads clause: %s is not a slice parameter", rd.Param)
		}
		k, _ := heapKey(v.Elem)
		x.readSpecs = append(x.readSpecs, readSpecR{param: rd.Param, key: k, ref: v.Ref, off: v.Off, lo: rd.Lo, hi: rd.Hi, src: rd.Src})
	}
	x.retK = func(s *State, vals []Value) { x.atReturn(s, vals) }
	x.block(st, fd.Body.List, func(s *State) {
		// fell off the end
		var vals []Value
		for _, r := range x.results {
			if v, ok := s.vars[r]; ok {
				vals = append(vals, v)
			} else {
				vals = append(vals, x.zero(s, r.Type()))
			}
		}
		x.atReturn(s, vals)
	})
	return x.obls, nil
}

func (x *Exec) entryValue(st *State, t types.Type, name string) Value {
	switch u := t.Underlying().(type) {
	case *types.Slice:
		// A-alias: slice parameters of one element type are the same window or disjoint arrays, so each
		// parameter's window is modelled as starting at offset 0 of its own abstract array.
		x.eng.assume("A-alias: slice parameters with the same element type do not partially overlap (each parameter window is modelled at offset 0 of its backing array)")
		s := SliceV{Ref: x.declareOnce(name+"_ref0", SInt), Off: Int(0), Len: x.declareOnce(name+"_len0", SInt), Cap: x.declareOnce(name+"_cap0", SInt), Elem: u.Elem()}
		st.assume(And(Cmp("<=", Int(0), s.Off), Cmp("<=", Int(0), s.Len), Cmp("<=", s.Len, s.Cap), Cmp("<=", Int(0), s.Ref), Cmp("<", s.Ref, x.alloc0),
			Cmp("<=", Add(s.Off, s.Cap), x.eng.specConsts["MaxBits"])), "type-inv:"+name)
		st.assume(Implies(Eq(s.Ref, Int(0)), Eq(s.Cap, Int(0))), "type-inv:"+name)
		return s
	case *types.Pointer:
		p := PtrV{Ref: x.declareOnce(name+"_ptr0", SInt), Elem: u.Elem()}
		st.assume(And(Cmp("<=", Int(0), p.Ref), Cmp("<", p.Ref, x.alloc0)), "type-inv:"+name)
		if isSyncType(t) {
			return OpaqueV{T: p.Ref, Typ: t}
		}
		return p
	case *types.Interface, *types.Chan:
		return OpaqueV{T: x.declareOnce(name+"_id0", SInt), Typ: t}
	case *types.Signature:
		return FuncV{T: x.declareOnce(name+"_fn0", SFn)}
	case *types.Struct:
		f := map[string]Value{}
		for i := 0; i < u.NumFields(); i++ {
			f[u.Field(i).Name()] = x.entryValue(st, u.Field(i).Type(), name+"_"+u.Field(i).Name())
		}
		return StructV{Typ: t, F: f}
	case *types.Basic:
		v := x.declareOnce(name+"0", x.modeSort(scalarSort(t)))
		if lo, hi, ok := intRange(t); ok {
			st.assume(And(Cmp("<=", Int(lo), v), Cmp("<=", v, Int(hi))), "type-inv:"+name)
		}
		return sc(v)
	}
	fail("parameter %s of type %s not in subset", name, t)
	return nil
}

func (x *Exec) atReturn(s *State, vals []Value) {
	if s.dead {
		return
	}
	for i := len(s.defers) - 1; i >= 0; i-- {
		s.defers[i](s)
	}
	x.pathCount++
	// named results take the returned values
	for i, r := range x.results {
		if r.Name() != "" && r.Name() != "_" && i < len(vals) {
			s.vars[r] = vals[i]
		}
	}
	end := x.fn.Body.Rbrace
	mkEnv := func(extraLets []LetDef) *SpecEnv {
		env := x.specEnvAt(s, end, 0)
		env.results = vals
		env.postMode = true
		env.lets = append(append([]LetDef{}, env.lets...), extraLets...)
		return env
	}
	x.anchor(s, "before return", end, 0)
	c := x.contract
	if c.Panics != nil && !c.PanicsOnly {
		pe := x.specEnvAt(s, end, 0)
		pe.postMode = true
		g := asTerm(x.evalSpec(pe, c.Panics.E))
		x.check(s, "panic", "panic/refused", Not(g), end, "normal return only when !("+c.Panics.Src+")")
	}
	for i, e := range c.Ensures {
		if c.Trusted {
			break // the helper ensures of a trusted contract are assumptions for callers, not obligations
		}
		g := asTerm(x.evalSpec(mkEnv(nil), e.E))
		for j, cj := range splitConj(g) {
			x.oblige(s, "post", fmt.Sprintf("post#%d.%d", i+1, j+1), cj, token.NoPos, e.Src)
		}
	}
	for _, pb := range x.pinned {
		if !caseSelected(pb, x.caseVals, x.caseLbl) {
			continue
		}
		for prop := range pb.Props {
			for i, e := range pb.Ensures {
				g := asTerm(x.evalSpec(mkEnv(pb.Lets), e.E))
				for j, cj := range splitConj(g) {
					o := x.oblige(s, "pinned", fmt.Sprintf("%s/post#%d.%d", prop, i+1, j+1), cj, token.NoPos, e.Src)
					o.Prop = prop
				}
			}
		}
	}
	// lifted lemmas: with F#k(args) *defined* as this function's results on args (deterministic function, M2),
	// the lemma's ensures must hold at every return
	for _, pb := range x.pinned {
		if !caseSelected(pb, x.caseVals, x.caseLbl) {
			continue
		}
		for li, lc := range pb.Lifts {
			ls := s.clone()
			env := mkEnv(pb.Lets)
			env.st = ls
			lm, inst := x.liftInst(ls, env, lc)
			var args []Value
			for _, pv := range x.params {
				args = append(args, x.pre.vars[pv])
			}
			x.assumeAbstraction(ls, x.pre, x.eng.fnConst(x.fnObj), x.fnObj.Type().(*types.Signature), nil, args, vals)
			for _, r := range lm.Requires {
				ls.assume(asTerm(x.evalSpec(inst, r.E)), "lemma-requires")
			}
			for prop := range pb.Props {
				for i, en := range lm.Ensures {
					g := asTerm(x.evalSpec(inst, en.E))
					for j, cj := range splitConj(g) {
						o := x.oblige(ls, "lift", fmt.Sprintf("lift/%s#%d/ensures#%d.%d", lm.Name, li+1, i+1, j+1), cj, token.NoPos, lm.Name+": "+en.Src)
						o.Prop = prop
					}
				}
			}
			x.eng.liftDone[lm.Name] = true
		}
	}
	// vacuity guard: this exit must be reachable (the query `false` must NOT be provable)
	o := x.oblige(s, "cover", "cover/exit", TFalse, end, "exit reachable under requires (must fail)")
	o.Expect = "sat"
}

func caseSelected(pb *FuncContract, vals map[string]Term, label string) bool {
	for _, cs := range pb.Cases {
		v, ok := vals[cs.Var]
		if !ok {
			return false
		}
		hit := false
		for _, lit := range cs.Vals {
			if lit == v.S || "(- "+strings.TrimPrefix(lit, "-")+")" == v.S {
				hit = true
			}
		}
		if !hit {
			return false
		}
	}
	return true
}

func sortedObls(obls []*Obligation) {
	sort.SliceStable(obls, func(i, j int) bool { return obls[i].Name < obls[j].Name })
}

// useLemma instantiates a proved lemma: checks its requires at the point, then assumes its ensures.
func (x *Exec) useLemma(st *State, env *SpecEnv, c Clause, where string, idx int) {
	guard := TTrue
	ce := c.E
	if b, ok := ce.(*EBin); ok && b.Op == "==>" {
		// guarded instantiation: `use cond ==> lemma(args)`
		guard = asTerm(x.evalSpec(env, b.L))
		ce = b.R
	}
	call, ok := ce.(*ECall)
	if !ok {
		fail("use: expected [cond ==>] lemma(args)")
	}
	lm := x.eng.specs.Lemmas[call.Fn]
	if lm == nil {
		fail("use: unknown lemma %s", call.Fn)
	}
	if len(call.Args) != len(lm.Params) {
		fail("use: lemma %s expects %d arguments", lm.Name, len(lm.Params))
	}
	n := env.child()
	inst := env.child()
	inst.bind = map[string]Value{}
	inst.bindPre = inst.bind
	for i, p := range lm.Params {
		v := x.evalSpec(n, call.Args[i])
		if strings.HasPrefix(p.Type, "seq<") {
			inst.bound[p.Name] = SeqV{x.coerceSpecArg(n, v, p.Type, lm.Name)}
		} else {
			inst.bound[p.Name] = sc(x.coerceSpecArg(n, v, p.Type, lm.Name))
		}
	}
	inst.lets = nil
	for i, r := range lm.Requires {
		g := Implies(guard, asTerm(x.evalSpec(inst, r.E)))
		x.check(st, "lemma-pre", fmt.Sprintf("use/%s/%s#%d.%d", lm.Name, strings.ReplaceAll(where, " ", "-"), idx+1, i+1), g, token.NoPos, r.Src)
	}
	for _, en := range lm.Ensures {
		st.assume(Implies(guard, asTerm(x.evalSpec(inst, en.E))), "lemma:"+lm.Name)
	}
	x.eng.usedLemmas[lm.Name] = true
}

// liftInst resolves `lift lemma(args)` of a pinned block: the lemma must be declared `lifted <this function>`.
func (x *Exec) liftInst(st *State, env *SpecEnv, c Clause) (*Lemma, *SpecEnv) {
	call, ok := c.E.(*ECall)
	if !ok {
		fail("lift: expected lemma(args)")
	}
	lm := x.eng.specs.Lemmas[call.Fn]
	if lm == nil {
		fail("lift: unknown lemma %s", call.Fn)
	}
	if lm.Lifted != x.key {
		fail("lift: lemma %s is declared `lifted %s`, not %s", lm.Name, lm.Lifted, x.key)
	}
	if x.contract == nil || !x.contract.Pure {
		fail("lift: %s is not declared pure", x.key)
	}
	if len(call.Args) != len(lm.Params) {
		fail("lift: lemma %s expects %d arguments", lm.Name, len(lm.Params))
	}
	// the instances must cover the lemma's whole domain: every argument is a distinct parameter or len(parameter)
	seen := map[string]bool{}
	isParamName := func(nm string) bool {
		for _, pv := range x.params {
			if pv.Name() == nm {
				return true
			}
		}
		return false
	}
	for _, a := range call.Args {
		key := ""
		switch a := a.(type) {
		case *EIdent:
			if isParamName(a.Name) {
				key = a.Name
			}
		case *ECall:
			if a.Fn == "len" && len(a.Args) == 1 {
				if id, ok := a.Args[0].(*EIdent); ok && isParamName(id.Name) {
					key = "len:" + id.Name
				}
			}
		}
		if key == "" || seen[key] {
			fail("lift %s: every argument must be a distinct parameter or len(parameter) of %s", lm.Name, x.key)
		}
		seen[key] = true
	}
	n := env.child()
	inst := env.child()
	inst.bind = map[string]Value{}
	inst.bindPre = inst.bind
	for i, p := range lm.Params {
		v := x.evalSpec(n, call.Args[i])
		if strings.HasPrefix(p.Type, "seq<") {
			inst.bound[p.Name] = SeqV{x.coerceSpecArg(n, v, p.Type, lm.Name)}
		} else {
			inst.bound[p.Name] = sc(x.coerceSpecArg(n, v, p.Type, lm.Name))
		}
	}
	inst.lets = nil
	return lm, inst
}
