package main

// Evaluation of contract/spec expressions to SMT terms in the context of a symbolic state.

import (
	"fmt"
	"go/token"
	"go/types"
	"math/big"
	"strings"
)

type SpecEnv struct {
	x           *Exec
	st          *State // current state (heaps, variables)
	preSt       *State // entry state for @pre
	bind        map[string]Value // callee-contract parameter bindings (call sites); nil => resolve Go scope
	bindPre     map[string]Value
	lets        []LetDef
	results     []Value
	resultNames []string
	bound       map[string]Value
	pos         token.Pos
	loopOrd     int
	calleePkg   string
	inPre       bool
	postMode    bool // ensures: parameter names denote entry headers (current heap contents)
	fuelSelf    map[string]bool // spec functions of the SCC being defined: use fuelVar
	fuelVar     Term
	depth       int
	allocBase   *Term // fresh(x) means ref >= allocBase (callee contracts at call sites: allocation counter before the call)
}

func (e *SpecEnv) child() *SpecEnv {
	n := *e
	n.bound = map[string]Value{}
	for k, v := range e.bound {
		n.bound[k] = v
	}
	return &n
}

func (x *Exec) specEnvAt(st *State, pos token.Pos, ord int) *SpecEnv {
	var lets []LetDef
	if x.contract != nil {
		lets = x.contract.Lets
	}
	return &SpecEnv{x: x, st: st, preSt: x.pre, lets: lets, bound: map[string]Value{}, pos: pos, loopOrd: ord}
}

func (x *Exec) specEnvPre(st *State) *SpecEnv {
	e := x.specEnvAt(x.pre, x.fn.Body.Lbrace+1, 0)
	e.inPre = true
	return e
}

// AbsV is the abstract result of `F#k(args)` / `app(f, args)`: fields and elements are uninterpreted applications.
type AbsV struct {
	prefix string
	args   []Term
	typ    types.Type
}

func typeSort(ty string) string {
	switch ty {
	case "int", "byte":
		return SInt
	case "real":
		return SReal
	case "bool":
		return SBool
	case "str":
		return SStr
	case "fn":
		return SFn
	case "cx":
		return SCx
	case "slice":
		return SSl
	}
	if strings.HasPrefix(ty, "seq<") {
		return ArrSort(typeSort(ty[4 : len(ty)-1]))
	}
	fail("unknown spec type %q", ty)
	return ""
}

func (x *Exec) specSort(ty string) string {
	s := typeSort(ty)
	if x != nil && x.mode == "U" {
		s = strings.ReplaceAll(s, SReal, SFl)
	}
	return s
}

func (x *Exec) evalSpec(env *SpecEnv, e Expr) Value {
	switch e := e.(type) {
	case *EInt:
		n, _ := new(big.Int).SetString(e.V, 10)
		return sc(BigInt(n))
	case *EReal:
		r, ok := new(big.Rat).SetString(e.V)
		if !ok {
			fail("bad real literal %s", e.V)
		}
		return sc(x.realConst(r))
	case *EBool:
		if e.V {
			return sc(TTrue)
		}
		return sc(TFalse)
	case *EStr:
		return sc(x.eng.strConst(e.V))
	case *EIdent:
		return x.specIdent(env, e)
	case *EOld:
		n := *env
		n.st = env.preSt
		n.inPre = true
		if env.bindPre != nil {
			n.bind = env.bindPre
		}
		return x.evalSpec(&n, e.X)
	case *EUn:
		v := asTerm(x.evalSpec(env, e.X))
		if e.Op == "!" {
			return sc(Not(v))
		}
		if v.Sort == SFl {
			return sc(App(SFl, "fneg", v))
		}
		return sc(Neg(v))
	case *EBin:
		return x.specBin(env, e)
	case *ECond:
		c := asTerm(x.evalSpec(env, e.C))
		if c.S == "true" {
			return x.evalSpec(env, e.A)
		}
		if c.S == "false" {
			return x.evalSpec(env, e.B)
		}
		a := x.evalSpec(env, e.A)
		b := x.evalSpec(env, e.B)
		at, bt := coerce2(asTerm(a), asTerm(b))
		return sc(Ite(c, at, bt))
	case *EQuant:
		n := env.child()
		var vars []Term
		for _, p := range e.Vars {
			t := Term{"q!" + p.Name, x.specSort(p.Type)}
			vars = append(vars, t)
			if strings.HasPrefix(p.Type, "seq<") {
				n.bound[p.Name] = SeqV{t}
			} else {
				n.bound[p.Name] = sc(t)
			}
		}
		body := asTerm(x.evalSpec(n, e.Body))
		var pats [][]Term
		for _, p := range e.Pats {
			var pt []Term
			for _, pe := range p {
				pv := x.evalSpec(n, pe)
				if sv, ok := pv.(SliceV); ok && strings.HasPrefix(sv.Ref.S, "(s-ref ") {
					// a slice-valued pattern: use the heap term it was read from
					pt = append(pt, Term{sv.Ref.S[7 : len(sv.Ref.S)-1], SSl})
					continue
				}
				pt = append(pt, asTerm(pv))
			}
			pats = append(pats, pt)
		}
		if e.Forall {
			return sc(Forall(vars, body, pats...))
		}
		return sc(Exists(vars, body))
	case *EIndex:
		b := x.evalSpec(env, e.X)
		i := asTerm(x.evalSpec(env, e.I))
		switch bv := b.(type) {
		case SliceV:
			st := env.st
			if bv.Pre {
				st = env.preSt
			}
			return x.readElemNoAssume(st, bv, i)
		case SeqV:
			return sc(Select(bv.Arr, i))
		case ArrayV:
			return sc(Select(bv.Arr, i))
		case AbsV:
			return AbsV{prefix: bv.prefix + "_elem", args: append(append([]Term{}, bv.args...), i), typ: elemType(bv.typ)}
		}
		fail("spec: index of %T", b)
	case *ESlice:
		b := x.evalSpec(env, e.X)
		sv, ok := b.(SliceV)
		if !ok {
			fail("spec: slice expression on %T", b)
		}
		lo := Int(0)
		hi := sv.Len
		if e.Lo != nil {
			lo = asTerm(x.evalSpec(env, e.Lo))
		}
		if e.Hi != nil {
			hi = asTerm(x.evalSpec(env, e.Hi))
		}
		return SliceV{Ref: sv.Ref, Off: Add(sv.Off, lo), Len: Sub(hi, lo), Cap: Sub(sv.Cap, lo), Elem: sv.Elem, Pre: sv.Pre}
	case *EField:
		b := x.evalSpec(env, e.X)
		switch bv := b.(type) {
		case StructV:
			v, ok := bv.F[e.F]
			if !ok {
				fail("spec: no field %s", e.F)
			}
			return v
		case PtrV:
			st := env.st
			if bv.Pre {
				st = env.preSt
			}
			return x.readFieldNoAssume(st, bv, e.F)
		case TupleV:
			var k int
			fmt.Sscanf(e.F, "%d", &k)
			return bv.Vs[k]
		case AbsV:
			// field of an abstract struct result
			ft := fieldType(bv.typ, e.F)
			fs := x.modeSort(scalarSort(ft))
			return sc(x.eng.absApp(bv.prefix+"_"+e.F, bv.args, fs))
		}
		fail("spec: field %s of %T", e.F, b)
	case *ECall:
		return x.specCall(env, e)
	}
	fail("spec: unhandled expression %T", e)
	return nil
}

func elemType(t types.Type) types.Type {
	if t == nil {
		return nil
	}
	if s, ok := t.Underlying().(*types.Slice); ok {
		return s.Elem()
	}
	return nil
}

func fieldType(t types.Type, f string) types.Type {
	if t == nil {
		fail("spec: field %s of untyped abstraction", f)
	}
	if p, ok := t.Underlying().(*types.Pointer); ok {
		t = p.Elem()
	}
	st, ok := t.Underlying().(*types.Struct)
	if !ok {
		fail("spec: field %s of non-struct %s", f, t)
	}
	for i := 0; i < st.NumFields(); i++ {
		if st.Field(i).Name() == f {
			return st.Field(i).Type()
		}
	}
	fail("spec: no field %s in %s", f, t)
	return nil
}

// heap reads in spec context do not add type-invariant assumptions to the path (st may be shared);
// instead the invariants are conjoined as facts where needed by the contract author.
func (x *Exec) readElemNoAssume(st *State, s SliceV, idx Term) Value {
	tmp := &State{vars: st.vars, heaps: st.heaps, fheaps: st.fheaps, alloc: st.alloc, ghost: st.ghost}
	return x.readElem(tmp, s, idx)
}

func (x *Exec) readFieldNoAssume(st *State, p PtrV, f string) Value {
	tmp := &State{vars: st.vars, heaps: st.heaps, fheaps: st.fheaps, alloc: st.alloc, ghost: st.ghost}
	return x.readField(tmp, p, f)
}

func (x *Exec) specIdent(env *SpecEnv, e *EIdent) Value {
	name := e.Name
	if v, ok := env.bound[name]; ok && !e.Pre {
		return v
	}
	// results
	if len(name) >= 2 && name[0] == 'r' && name[1] >= '0' && name[1] <= '9' {
		var k int
		if _, err := fmt.Sscanf(name[1:], "%d", &k); err == nil && fmt.Sprintf("r%d", k) == name {
			if env.results == nil || k >= len(env.results) {
				fail("spec: result %s not available here", name)
			}
			return env.results[k]
		}
	}
	for i, rn := range env.resultNames {
		if rn == name && rn != "" && env.results != nil && !e.Pre && env.bind != nil {
			return env.results[i]
		}
	}
	// let macros
	for _, l := range env.lets {
		if l.Name == name {
			return x.evalSpec(env, l.E)
		}
	}
	switch name {
	case "$alloc":
		return sc(env.st.alloc)
	case "$alloc0":
		return sc(x.alloc0)
	case "$i", "$iter":
		key := fmt.Sprintf("$i%d", env.loopOrd)
		if g, ok := env.st.ghost[key]; ok {
			return sc(g)
		}
		// the loop was rewritten from `range` to a counting loop `for v := 0; ...; v++`: the iteration index is v
		if v := x.countingLoopVar(env.loopOrd); v != nil {
			if val, ok := env.st.vars[v]; ok {
				return val
			}
		}
		fail("spec: $i used outside a range loop (loop %d)", env.loopOrd)
	case "nil":
		return sc(Int(0))
	}
	if strings.HasPrefix(name, "$i") {
		if g, ok := env.st.ghost[name]; ok {
			return sc(g)
		}
	}
	// call-site bindings (callee contract)
	if env.bind != nil {
		m := env.bind
		if e.Pre && env.bindPre != nil {
			m = env.bindPre
		}
		if v, ok := m[name]; ok {
			if e.Pre {
				return markPre(v)
			}
			return v
		}
	} else {
		// Go scope at the anchor
		obj := x.lookupGo(name, env.pos)
		if obj == nil {
			if nn := x.eng.aliasNew(x.key, name); nn != "" {
				obj = x.lookupGo(nn, env.pos)
			}
		}
		if obj == nil {
			// the recorded loop at this ordinal was `for name := 0; ...` and is now a range loop without that variable:
			// the name denotes the iteration index
			if ord := x.eng.recordedCountingVar(x.key, name, env.loopOrd); ord > 0 {
				if g, ok := env.st.ghost[fmt.Sprintf("$i%d", ord)]; ok {
					return sc(g)
				}
			}
		}
		if obj != nil {
			switch o := obj.(type) {
			case *types.Var:
				if e.Pre || env.inPre {
					if v, ok := x.pre.vars[o]; ok {
						return markPre(v)
					}
					if o.Pkg() != nil && o.Parent() == o.Pkg().Scope() {
						return x.eng.globalVar(x, env.preSt, o)
					}
					fail("spec: %s@pre: not a parameter", name)
				}
				if env.postMode && x.isParam(o) {
					if v, ok := x.pre.vars[o]; ok {
						return v
					}
				}
				if v, ok := env.st.vars[o]; ok {
					if _, isStruct := v.(StructV); isStruct && isSyncType(o.Type()) {
						return OpaqueV{T: x.eng.addrOf(x, o), Typ: o.Type()} // sync.X held by value: identified by its address
					}
					return v
				}
				if o.Parent() == o.Pkg().Scope() {
					return x.eng.globalVar(x, env.st, o)
				}
				fail("spec: variable %s has no value at this point (%s)", name, x.pos(env.pos))
			case *types.Const:
				v, _ := x.namedConstTerm(o)
				return v
			case *types.Func:
				return FuncV{T: x.eng.fnConst(o), Obj: o}
			}
		}
	}
	// package-level names of the callee's / current package, spec constants
	if v, ok := x.eng.pkgLevel(x, env, name); ok {
		return v
	}
	if c, ok := x.eng.specConsts[name]; ok {
		return sc(c)
	}
	fail("spec: identifier %q resolves to nothing (contract/code mismatch) in %s", name, x.key)
	return nil
}

func markPre(v Value) Value {
	switch s := v.(type) {
	case SliceV:
		s.Pre = true
		return s
	case PtrV:
		s.Pre = true
		return s
	}
	return v
}

func (x *Exec) lookupGo(name string, pos token.Pos) types.Object {
	if !pos.IsValid() {
		return nil
	}
	sc := x.pkg.Types.Scope().Innermost(pos)
	if sc == nil {
		return nil
	}
	_, obj := sc.LookupParent(name, pos)
	if obj == nil {
		return nil
	}
	if obj.Pkg() == nil {
		return nil // universe (true, false, len ...) handled elsewhere
	}
	return obj
}

func (x *Exec) specBin(env *SpecEnv, e *EBin) Value {
	switch e.Op {
	case "&&":
		return sc(And(asTerm(x.evalSpec(env, e.L)), asTerm(x.evalSpec(env, e.R))))
	case "||":
		return sc(Or(asTerm(x.evalSpec(env, e.L)), asTerm(x.evalSpec(env, e.R))))
	case "==>":
		return sc(Implies(asTerm(x.evalSpec(env, e.L)), asTerm(x.evalSpec(env, e.R))))
	case "<==>":
		return sc(Eq(asTerm(x.evalSpec(env, e.L)), asTerm(x.evalSpec(env, e.R))))
	}
	lv := x.evalSpec(env, e.L)
	rv := x.evalSpec(env, e.R)
	if e.Op == "==" || e.Op == "!=" {
		var eq Term
		switch l := lv.(type) {
		case SliceV:
			r, ok := rv.(SliceV)
			if !ok {
				// comparison with nil
				eq = Eq(l.Ref, asTerm(rv))
			} else {
				eq = And(Eq(l.Ref, r.Ref), Eq(l.Off, r.Off), Eq(l.Len, r.Len), Eq(l.Cap, r.Cap))
			}
		default:
			eq = Eq(asTerm(lv), asTerm(rv))
		}
		if e.Op == "!=" {
			return sc(Not(eq))
		}
		return sc(eq)
	}
	l, r := asTerm(lv), asTerm(rv)
	if l.Sort == SFl || r.Sort == SFl {
		return sc(x.flBin(e.Op, l, r))
	}
	switch e.Op {
	case "<", "<=", ">", ">=":
		return sc(Cmp(e.Op, l, r))
	case "+":
		return sc(Add(l, r))
	case "-":
		return sc(Sub(l, r))
	case "*":
		return sc(Mul(l, r))
	case "/":
		if l.Sort == SInt && r.Sort == SInt {
			return sc(TDiv(l, r))
		}
		return sc(RDiv(l, r))
	case "%":
		return sc(TMod(l, r))
	}
	fail("spec: operator %s", e.Op)
	return nil
}

func (x *Exec) flBin(op string, l, r Term) Term {
	toFl := func(t Term) Term {
		if t.Sort == SFl {
			return t
		}
		if t.Sort == SInt {
			if n, ok := intLit(t); ok {
				return x.eng.flConst(new(big.Rat).SetInt(n))
			}
			return App(SFl, "i2f", t)
		}
		if rr, ok := realLit(t); ok {
			return x.eng.flConst(rr)
		}
		fail("spec: cannot use %s as float in U-mode", t.S)
		return t
	}
	l, r = toFl(l), toFl(r)
	switch op {
	case "+":
		return App(SFl, "fadd", l, r)
	case "-":
		return App(SFl, "fsub", l, r)
	case "*":
		return App(SFl, "fmul", l, r)
	case "/":
		return App(SFl, "fdiv", l, r)
	case "<":
		return App(SBool, "flt", l, r)
	case "<=":
		return App(SBool, "fle", l, r)
	case ">":
		return App(SBool, "fgt", l, r)
	case ">=":
		return App(SBool, "fge", l, r)
	}
	fail("spec: float operator %s", op)
	return Term{}
}

func (x *Exec) specCall(env *SpecEnv, e *ECall) Value {
	if e.Res >= 0 {
		return x.specAbstraction(env, e)
	}
	arg := func(i int) Value { return x.evalSpec(env, e.Args[i]) }
	switch e.Fn {
	case "len":
		switch v := arg(0).(type) {
		case SliceV:
			return sc(v.Len)
		case ArrayV:
			return sc(Int(v.N))
		case AbsV:
			return sc(x.eng.absApp(v.prefix+"_len", v.args, SInt))
		case Scalar:
			if v.T.Sort == SStr {
				return sc(App(SInt, "str-len", v.T))
			}
		}
		fail("spec: len of non-slice")
	case "cap":
		return sc(arg(0).(SliceV).Cap)
	case "ref":
		switch v := arg(0).(type) {
		case SliceV:
			return sc(v.Ref)
		case PtrV:
			return sc(v.Ref)
		}
		fail("spec: ref of non-reference")
	case "off":
		return sc(arg(0).(SliceV).Off)
	case "real":
		t := asTerm(arg(0))
		if x.mode == "U" {
			if t.Sort == SFl {
				return sc(t)
			}
			if n, ok := intLit(t); ok {
				return sc(x.eng.flConst(new(big.Rat).SetInt(n)))
			}
			return sc(App(SFl, "i2f", t))
		}
		return sc(ToReal(t))
	case "fresh":
		ab := x.alloc0
		if env.allocBase != nil {
			ab = *env.allocBase
		}
		switch v := arg(0).(type) {
		case SliceV:
			return sc(And(Cmp(">=", v.Ref, ab), Cmp("<", v.Ref, env.st.alloc)))
		case PtrV:
			return sc(And(Cmp(">=", v.Ref, ab), Cmp("<", v.Ref, env.st.alloc)))
		}
		fail("spec: fresh of non-reference")
	case "allocated":
		switch v := arg(0).(type) {
		case SliceV:
			return sc(And(Cmp("<=", Int(0), v.Ref), Cmp("<", v.Ref, env.st.alloc)))
		case PtrV:
			return sc(And(Cmp("<", Int(0), v.Ref), Cmp("<", v.Ref, env.st.alloc)))
		}
	case "seq":
		sv := arg(0).(SliceV)
		st := env.st
		if sv.Pre {
			st = env.preSt
		}
		return SeqV{x.seqOf(st, sv)}
	case "old":
		return x.evalSpec(env, &EOld{e.Args[0]})
	case "fn":
		id, ok := e.Args[0].(*EIdent)
		if !ok {
			fail("spec: fn(Name)")
		}
		return FuncV{T: x.eng.fnConstByName(x, env, id.Name)}
	case "app":
		// app(f, args...): abstract result of calling function value f
		f := asTerm(arg(0))
		st := env.st
		var vals []Value
		for i := 1; i < len(e.Args); i++ {
			vals = append(vals, arg(i))
		}
		ats := append([]Term{f}, x.absArgsSpec(env, st, vals)...)
		return AbsV{prefix: "app0", args: ats, typ: x.eng.fnResultType(f, 0)}
	case "unchanged":
		sv := arg(0).(SliceV)
		key, es := heapKey(sv.Elem)
		return sc(Eq(Select(x.heap(env.st, key, es), sv.Ref), Select(x.preHeap(key, es), sv.Ref)))
	case "pos", "done", "added", "sent", "reads", "spawned", "atomic", "waited":
		var obj Value = OpaqueV{T: Int(0)}
		if len(e.Args) > 0 {
			obj = arg(0)
		}
		return sc(x.ghostGet(env.st, e.Fn, obj, SInt))
	case "openflags":
		// flag argument of the most recent os.OpenFile call of this function
		return sc(x.ghostGet(env.st, "openflags", OpaqueV{T: Int(0)}, SInt))
	case "oserr":
		return sc(x.ghostGet(env.st, "oserr", OpaqueV{T: Int(0)}, SBool))
	case "closed", "readfailed", "locked":
		return sc(x.ghostGet(env.st, e.Fn, arg(0), SBool))
	case "pathjoin":
		return sc(App(SStr, "path-join", asTerm(arg(0)), asTerm(arg(1))))
	case "sprintf1":
		// sprintf1(format, intarg): the term fmt.Sprintf builds for one integer argument
		f, a := asTerm(arg(0)), asTerm(arg(1))
		name := "sprintf2_" + sortTag(f.Sort) + "_" + sortTag(a.Sort)
		x.eng.declareFun(name, []string{f.Sort, a.Sort}, SStr)
		return sc(App(SStr, name, f, a))
	case "filebytes":
		return SeqV{App(ArrSort(SInt), "fs-bytes", asTerm(arg(0)))}
	case "filelen":
		return sc(App(SInt, "fs-len", asTerm(arg(0))))
	case "basename":
		return sc(App(SStr, "path-base", asTerm(arg(0))))
	case "stream":
		return SeqV{x.streamOf(arg(0))}
	case "shiftseq":
		sq := arg(0)
		var arr Term
		switch a := sq.(type) {
		case SeqV:
			arr = a.Arr
		case SliceV:
			st := env.st
			if a.Pre {
				st = env.preSt
			}
			arr = x.seqOf(st, a)
		default:
			fail("spec: shiftseq of %T", sq)
		}
		o := asTerm(arg(1))
		if o.S == "0" {
			return SeqV{arr}
		}
		return SeqV{App(arr.Sort, "shift_"+sortTag(elemOfArr(arr.Sort)), arr, o)}
	case "sentfield":
		// sentfield(ch, field, k): integer field of the k-th value sent on ch
		id := e.Args[1].(*EIdent).Name
		return sc(Select(x.ghostGet(env.st, "sendlog."+id, arg(0), ArrSort(SInt)), asTerm(arg(2))))
	case "sentlen":
		id := e.Args[1].(*EIdent).Name
		return sc(Select(x.ghostGet(env.st, "sendlen."+id, arg(0), ArrSort(SInt)), asTerm(arg(2))))
	case "sentbytes":
		// sentbytes(ch, field, k): contents (at send time) of the []byte field of the k-th value sent on ch
		id := e.Args[1].(*EIdent).Name
		return SeqV{Select(x.ghostGet(env.st, "sendseq."+id, arg(0), ArrSort(ArrSort(SInt))), asTerm(arg(2)))}
	case "sentval":
		return sc(Select(x.ghostGet(env.st, "sendlog", arg(0), ArrSort(SInt)), asTerm(arg(1))))
	case "errname":
		return sc(App(SStr, "err-arg0", asTerm(arg(0))))
	case "errfmt":
		return sc(App(SStr, "err-fmt", asTerm(arg(0))))
	case "logged":
		// logged(kind, k): k-th entry of the ghost log `kind`
		id := e.Args[0].(*EIdent).Name
		return sc(Select(x.ghostGet(env.st, "log:"+id, OpaqueV{T: Int(0)}, ArrSort(SStr)), asTerm(arg(1))))
	case "nlogged":
		id := e.Args[0].(*EIdent).Name
		return sc(x.ghostGet(env.st, "nlog:"+id, OpaqueV{T: Int(0)}, SInt))
	case "loggedint":
		id := e.Args[0].(*EIdent).Name
		return sc(Select(x.ghostGet(env.st, "ilog:"+id, OpaqueV{T: Int(0)}, ArrSort(SInt)), asTerm(arg(1))))
	case "ediv":
		return sc(EDiv(asTerm(arg(0)), asTerm(arg(1))))
	case "emod":
		return sc(EMod(asTerm(arg(0)), asTerm(arg(1))))
	case "pow2":
		return sc(Pow2(asTerm(arg(0))))
	case "mathPi":
		// the exact rational value of Go's untyped constant math.Pi (what `math.Pi` denotes in the code, R-mode)
		for _, p := range x.eng.pkgs {
			for _, imp := range p.Types.Imports() {
				if imp.Path() == "math" {
					if c, ok := imp.Scope().Lookup("Pi").(*types.Const); ok {
						if r, ok := new(big.Rat).SetString(c.Val().ExactString()); ok {
							return sc(x.realConst(r))
						}
					}
				}
			}
		}
		fail("spec: math.Pi not available")
	case "cabs":
		return sc(App(SReal, "cabs", asTerm(arg(0))))
	case "cx":
		return sc(App(SCx, "cx", ToReal(asTerm(arg(0))), ToReal(asTerm(arg(1)))))
	case "cmul":
		return sc(App(SCx, "cmul", asTerm(arg(0)), asTerm(arg(1))))
	case "cadd":
		return sc(App(SCx, "cadd", asTerm(arg(0)), asTerm(arg(1))))
	case "csub":
		return sc(App(SCx, "csub", asTerm(arg(0)), asTerm(arg(1))))
	case "popcount8":
		return sc(App(SInt, "popcount8", asTerm(arg(0))))
	case "wrap64":
		return sc(App(SInt, "wrap64", asTerm(arg(0))))
	case "floor":
		return sc(App(SInt, "to_int", ToReal(asTerm(arg(0)))))
	case "slice":
		// slice(ref, off, len, cap) — rarely needed
		fail("spec: slice() constructor not supported")
	}
	// spec function
	sf, ok := x.eng.specs.Funcs[e.Fn]
	if !ok {
		fail("spec: unknown function %q in %s", e.Fn, x.key)
	}
	if len(e.Args) != len(sf.Params) {
		fail("spec: %s expects %d arguments, got %d", e.Fn, len(sf.Params), len(e.Args))
	}
	// specialise on a literal argument
	if sf.Special != "" {
		for i, p := range sf.Params {
			if p.Name != sf.Special {
				continue
			}
			lit := asTerm(arg(i))
			n, ok := intLit(lit)
			if !ok {
				break
			}
			inst := fmt.Sprintf("%s_%s%s", sf.Name, p.Name, n.String())
			isf, ok := x.eng.specs.Funcs[inst]
			if !ok {
				var ps []Param
				for j, q := range sf.Params {
					if j != i {
						ps = append(ps, q)
					}
				}
				isf = &SpecFunc{Name: inst, Params: ps, Ret: sf.Ret, Body: sf.Body, Unfold: sf.Unfold, Fixed: map[string]Term{p.Name: lit}, Base: sf.Name}
				x.eng.specs.Funcs[inst] = isf
			}
			var nargs []Expr
			for j := range e.Args {
				if j != i {
					nargs = append(nargs, e.Args[j])
				}
			}
			return x.specCall(env, &ECall{Fn: inst, Res: -1, Args: nargs})
		}
	}
	var ats []Term
	var avals []Value
	for i, p := range sf.Params {
		v := arg(i)
		avals = append(avals, v)
		ats = append(ats, x.coerceSpecArg(env, v, p.Type, e.Fn))
	}
	x.eng.useSpec(e.Fn)
	// unfold-on-literal: inline the definition when the designated argument is a small literal
	if sf.Unfold != "" && sf.Body != nil && env.depth < 80 {
		for i, p := range sf.Params {
			if p.Name != sf.Unfold {
				continue
			}
			if n, ok := intLit(ats[i]); ok && n.IsInt64() && n.Int64() >= -1 && n.Int64() <= 64 {
				in := &SpecEnv{x: x, st: env.st, preSt: env.preSt, bind: map[string]Value{}, bindPre: map[string]Value{}, bound: map[string]Value{},
					fuelSelf: env.fuelSelf, fuelVar: env.fuelVar, depth: env.depth + 1}
				for j, q := range sf.Params {
					if strings.HasPrefix(q.Type, "seq<") {
						in.bound[q.Name] = SeqV{ats[j]}
					} else {
						in.bound[q.Name] = sc(ats[j])
					}
				}
				for k, v := range sf.Fixed {
					in.bound[k] = sc(v)
				}
				r := x.evalSpec(in, sf.Body)
				if sf.Ret == "real" {
					return sc(ToReal(asTerm(r)))
				}
				return r
			}
		}
	}
	_ = avals
	if x.eng.specRecursive(e.Fn) {
		fuel := x.eng.topFuel()
		if env.fuelSelf[e.Fn] {
			fuel = env.fuelVar
		}
		ats = append([]Term{fuel}, ats...)
	}
	rs := x.specSort(sf.Ret)
	name := e.Fn
	if x.mode == "U" && x.eng.specUsesReal(e.Fn) {
		name += "_u"
	}
	res := App(rs, name, ats...)
	if strings.HasPrefix(sf.Ret, "seq<") {
		return SeqV{res}
	}
	return sc(res)
}

func (x *Exec) coerceSpecArg(env *SpecEnv, v Value, ty string, fn string) Term {
	want := x.specSort(ty)
	switch a := v.(type) {
	case SliceV:
		if !strings.HasPrefix(ty, "seq<") {
			fail("spec: %s: slice passed where %s expected", fn, ty)
		}
		st := env.st
		if a.Pre && env.preSt != nil {
			// x@pre: contents in the state the contract's "pre" refers to — the function's entry state inside the
			// function, the state just before the call when a callee's contract is applied at a call site
			b := a
			b.Pre = false
			return x.seqOf(env.preSt, b)
		}
		return x.seqOf(st, a)
	case SeqV:
		return a.Arr
	case ArrayV:
		return a.Arr
	}
	t := asTerm(v)
	if want == SReal && t.Sort == SInt {
		return ToReal(t)
	}
	if want == SFl && t.Sort != SFl {
		if t.Sort == SInt {
			if n, ok := intLit(t); ok {
				return x.eng.flConst(new(big.Rat).SetInt(n))
			}
			return App(SFl, "i2f", t)
		}
		if r, ok := realLit(t); ok {
			return x.eng.flConst(r)
		}
	}
	if t.Sort != want {
		fail("spec: %s: argument %s has sort %s, want %s", fn, t.S, t.Sort, want)
	}
	return t
}

// absArgsSpec: slices become (trunc(seq,len), len); a SeqV must be followed by its explicit length.
func (x *Exec) absArgsSpec(env *SpecEnv, st *State, vals []Value) []Term {
	var out []Term
	for i := 0; i < len(vals); i++ {
		switch a := vals[i].(type) {
		case SliceV:
			s2 := st
			if a.Pre {
				s2 = env.preSt
			}
			_, es := heapKey(a.Elem)
			out = append(out, App(ArrSort(es), "trunc_"+sortTag(es), x.seqOf(s2, a), a.Len), a.Len)
		case SeqV:
			if i+1 >= len(vals) {
				fail("spec: sequence argument to an abstraction must be followed by its length")
			}
			n := asTerm(vals[i+1])
			es := elemOfArr(a.Arr.Sort)
			out = append(out, App(a.Arr.Sort, "trunc_"+sortTag(es), a.Arr, n), n)
			i++
		default:
			out = append(out, asTerm(vals[i]))
		}
	}
	return out
}

// specAbstraction: Name#k(args) — the k-th result of pure function Name as an uninterpreted function of its arguments.
func (x *Exec) specAbstraction(env *SpecEnv, e *ECall) Value {
	fo := x.eng.lookupFunc(x, env, e.Fn)
	if fo == nil {
		fail("spec: abstraction of unknown function %s", e.Fn)
	}
	var vals []Value
	for _, a := range e.Args {
		vals = append(vals, x.evalSpec(env, a))
	}
	ats := append([]Term{x.eng.fnConst(fo)}, x.absArgsSpec(env, env.st, vals)...)
	sig := fo.Type().(*types.Signature)
	if e.Res >= sig.Results().Len() {
		fail("spec: %s has no result %d", e.Fn, e.Res)
	}
	rt := sig.Results().At(e.Res).Type()
	prefix := fmt.Sprintf("app%d", e.Res)
	switch rt.Underlying().(type) {
	case *types.Pointer, *types.Slice, *types.Struct:
		return AbsV{prefix: prefix, args: ats, typ: rt}
	}
	rs := x.modeSort(scalarSort(rt))
	return sc(x.eng.absApp(prefix+"_"+sortTag(rs), ats, rs))
}

func (x *Exec) isParam(o *types.Var) bool {
	if x.recv == o {
		return true
	}
	for _, p := range x.params {
		if p == o {
			return true
		}
	}
	return false
}
