package main

func cmdAll(args []string) int      { return 2 }
