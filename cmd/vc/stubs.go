package main

func cmdSelftest(args []string) int { return 2 }
func cmdAll(args []string) int      { return 2 }
