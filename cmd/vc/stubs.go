package main

func cmdSelftest(args []string) int { return 2 }
func cmdAll(args []string) int      { return 2 }

func searchWitness(e *Engine, res *checkResult, o *Obligation, seed int) map[string]interface{} {
	return nil
}
func rerunWitness(rp map[string]interface{}) (string, int) { return "not implemented", 2 }
