package main

// Self-test corpus: (a) must-fail canaries — single-site textual mutations applied through the loader's in-memory
// overlay (no copy of the repository); the named property's check must then report at least one undischarged
// obligation; (b) must-pass refactors — behaviour-preserving edits that must leave every obligation discharged.

import (
	"encoding/json"
	"fmt"
	"os"
	"path/filepath"
	"strings"
)

type canary struct {
	ID       string `json:"id"`
	Property string `json:"property"`
	File     string `json:"file"`
	Find     string `json:"find"`
	Replace  string `json:"replace"`
	Kind     string `json:"kind"` // "must-fail" | "must-pass"
	Note     string `json:"note"`
}

func cmdSelftest(args []string) int {
	b, err := os.ReadFile(filepath.Join(homeDir(), "selftest", "canaries.json"))
	if err != nil {
		fmt.Fprintln(os.Stderr, err)
		return 2
	}
	var cs []canary
	if err := json.Unmarshal(b, &cs); err != nil {
		fmt.Fprintln(os.Stderr, err)
		return 2
	}
	only := map[string]bool{}
	for _, a := range args {
		only[a] = true
	}
	repo := envOr("VERIF_REPO", "/repo")
	bad := 0
	if len(only) == 0 || only["lemmas"] {
		bad += bogusLemmas(repo)
	}
	for _, c := range cs {
		if len(only) > 0 && !only[c.ID] && !only[c.Property] {
			continue
		}
		path := filepath.Join(repo, c.File)
		src, err := os.ReadFile(path)
		if err != nil {
			fmt.Printf("SKIP %s: %v\n", c.ID, err)
			continue
		}
		if strings.Count(string(src), c.Find) != 1 {
			fmt.Printf("SKIP %s: anchor text occurs %d times in %s\n", c.ID, strings.Count(string(src), c.Find), c.File)
			continue
		}
		mut := strings.Replace(string(src), c.Find, c.Replace, 1)
		e, err := NewEngineOverlay(repo, map[string][]byte{path: []byte(mut)})
		if err != nil {
			fmt.Printf("SKIP %s: mutant does not load: %v\n", c.ID, err)
			continue
		}
		if err := e.LoadSpecs(homeDir() + "/spec"); err != nil {
			fmt.Println(err)
			return 2
		}
		if err := e.LoadContracts(); err != nil {
			fmt.Println(err)
			return 2
		}
		dir, _ := os.MkdirTemp("", "vc-self-")
		res, err := runCheck(e, c.Property, "quick", dir)
		os.RemoveAll(dir)
		if err != nil {
			fmt.Printf("ERROR %s: %v\n", c.ID, err)
			bad++
			continue
		}
		var failed []string
		for _, o := range res.obls {
			if o.Class != "cover" && o.Status != "discharged" {
				failed = append(failed, o.Name)
			}
		}
		failed = append(failed, res.genErrs...)
		switch c.Kind {
		case "must-pass":
			if len(failed) == 0 {
				fmt.Printf("ok   %-34s (%s) refactor keeps all %d obligations discharged\n", c.ID, c.Property, len(res.obls))
			} else {
				bad++
				fmt.Printf("BAD  %-34s (%s) harmless edit breaks: %v\n", c.ID, c.Property, first(failed, 3))
			}
		default:
			if len(failed) > 0 {
				fmt.Printf("ok   %-34s (%s) fails as expected: %v\n", c.ID, c.Property, first(failed, 2))
			} else {
				bad++
				fmt.Printf("BAD  %-34s (%s) mutant NOT detected\n", c.ID, c.Property)
			}
		}
	}
	if bad > 0 {
		return 1
	}
	return 0
}

func first(xs []string, n int) []string {
	if len(xs) > n {
		return append(xs[:n:n], fmt.Sprintf("... (%d)", len(xs)))
	}
	return xs
}

// bogusLemmas: every lemma of selftest/bogus.spec is false and must stay unproved.
func bogusLemmas(repo string) int {
	e, err := NewEngineOverlay(repo, nil)
	if err != nil {
		fmt.Println(err)
		return 1
	}
	if err := e.LoadSpecs(homeDir() + "/spec"); err != nil {
		fmt.Println(err)
		return 1
	}
	b, err := os.ReadFile(filepath.Join(homeDir(), "selftest", "bogus.spec"))
	if err != nil {
		fmt.Println(err)
		return 1
	}
	before := map[string]bool{}
	for n := range e.specs.Lemmas {
		before[n] = true
	}
	if err := parseSpecFile(string(b), "selftest/bogus.spec", e.specs); err != nil {
		fmt.Println(err)
		return 1
	}
	only := map[string]bool{}
	for n := range e.specs.Lemmas {
		if !before[n] {
			only[n] = true
		}
	}
	obls, err := e.LemmaObligations(only)
	if err != nil {
		fmt.Println(err)
		return 1
	}
	dir, _ := os.MkdirTemp("", "vc-self-")
	defer os.RemoveAll(dir)
	e.Discharge(obls, SolveOpts{TimeoutS: 5, Dir: dir, Workers: 8})
	bad := 0
	proved := map[string]bool{}
	for n := range only {
		proved[n] = true
	}
	for _, o := range obls {
		if o.Status != "discharged" {
			proved[strings.Split(strings.TrimPrefix(o.Name, "lemma."), "/")[0]] = false
		}
	}
	for n := range only {
		if proved[n] {
			bad++
			fmt.Printf("BAD  %-34s false lemma was PROVED\n", n)
		} else {
			fmt.Printf("ok   %-34s false lemma stays unproved\n", n)
		}
	}
	return bad
}
