package main

// Calls: conversions, builtins, trusted externals, repository functions by contract.

import (
	"fmt"
	"go/ast"
	"go/token"
	"go/types"
	"math/big"
	"strings"
)

func (x *Exec) evalArgs(st *State, args []ast.Expr) []Value {
	var out []Value
	for _, a := range args {
		out = append(out, x.eval(st, a))
	}
	return out
}

func (x *Exec) evalCall(st *State, call *ast.CallExpr) []Value {
	// conversion?
	if tv, ok := x.pkg.TypesInfo.Types[call.Fun]; ok && tv.IsType() {
		return []Value{x.convert(st, call, tv.Type)}
	}
	fun := unparen(call.Fun)
	// builtin?
	if id, ok := fun.(*ast.Ident); ok {
		if b, ok := x.pkg.TypesInfo.ObjectOf(id).(*types.Builtin); ok {
			return x.builtin(st, call, b.Name())
		}
	}
	// static callee?
	var callee *types.Func
	var recvVal Value
	switch f := fun.(type) {
	case *ast.Ident:
		if fo, ok := x.pkg.TypesInfo.ObjectOf(f).(*types.Func); ok {
			callee = fo
		}
	case *ast.SelectorExpr:
		if sel := x.pkg.TypesInfo.Selections[f]; sel != nil {
			if sel.Kind() == types.MethodVal {
				callee = sel.Obj().(*types.Func)
				recvVal = x.evalRecv(st, f.X)
			}
		} else if fo, ok := x.pkg.TypesInfo.ObjectOf(f.Sel).(*types.Func); ok {
			callee = fo
		}
	}
	if callee != nil {
		x.anchor(st, "before call "+callee.Name(), call.Pos(), 0)
		return x.callStatic(st, call, callee, recvVal)
	}
	if id, ok := fun.(*ast.Ident); ok {
		x.anchor(st, "before call "+id.Name, call.Pos(), 0)
	}
	// a function-typed variable of a standard-library package (flag.Usage): prints, touches nothing of ours
	if sel, ok := fun.(*ast.SelectorExpr); ok {
		if v, ok := x.pkg.TypesInfo.ObjectOf(sel.Sel).(*types.Var); ok && v.Pkg() != nil && !strings.HasPrefix(v.Pkg().Path(), x.eng.modPath) {
			if sig, ok := v.Type().Underlying().(*types.Signature); ok && sig.Params().Len() == 0 && sig.Results().Len() == 0 {
				x.eng.trust(v.Pkg().Path() + "." + v.Name() + " (function variable, assumed to write nothing the repository observes)")
				return nil
			}
		}
	}
	// call through a function value
	fv := x.eval(st, call.Fun)
	f, ok := fv.(FuncV)
	if !ok {
		fail("call of %T not in subset at %s", fv, x.pos(call.Pos()))
	}
	if f.Lit != nil {
		return x.inlineClosure(st, f.Lit.(*closure), call)
	}
	return x.callFuncValue(st, call, f)
}

func (x *Exec) evalRecv(st *State, e ast.Expr) Value {
	// &wait / wg / mutex receivers: opaque identity
	t := x.typeOf(e)
	if isSyncType(t) {
		switch ee := unparen(e).(type) {
		case *ast.Ident:
			obj := x.pkg.TypesInfo.ObjectOf(ee)
			if v, ok := st.vars[obj]; ok {
				if _, isOpaque := v.(OpaqueV); isOpaque {
					return v // a *sync.X parameter / pointer variable
				}
			}
			return OpaqueV{T: x.eng.addrOf(x, obj), Typ: t} // a sync.X value held in a local: identified by its address
		}
	}
	return x.eval(st, e)
}

func isSyncType(t types.Type) bool {
	if p, ok := t.(*types.Pointer); ok {
		t = p.Elem()
	}
	if n, ok := t.(*types.Named); ok && n.Obj().Pkg() != nil && n.Obj().Pkg().Path() == "sync" {
		return true
	}
	return false
}

func (x *Exec) convert(st *State, call *ast.CallExpr, to types.Type) Value {
	v := x.eval(st, call.Args[0])
	from := x.typeOf(call.Args[0])
	switch {
	case isFloat(to) && isInt(from):
		t := asTerm(v)
		if x.mode == "U" {
			if n, ok := intLit(t); ok {
				return sc(x.eng.flConst(new(big.Rat).SetInt(n)))
			}
			return sc(App(SFl, "i2f", t))
		}
		x.eng.assume("int->float64 conversions are exact (|i| < 2^53)")
		return sc(ToReal(t))
	case isFloat(to) && isFloat(from):
		// narrowing to float32 rounds: an uninterpreted function of the value, never the identity (float64(float32(x)) != x)
		if tb, ok := to.Underlying().(*types.Basic); ok && tb.Kind() == types.Float32 {
			if fb, ok := from.Underlying().(*types.Basic); !ok || fb.Kind() != types.Float32 {
				t := asTerm(v)
				name := "round32"
				x.eng.declareFun(name+"_"+sortTag(t.Sort), []string{t.Sort}, t.Sort)
				return sc(App(t.Sort, name+"_"+sortTag(t.Sort), t))
			}
		}
		return v
	case isInt(to) && isFloat(from):
		t := asTerm(v)
		if x.mode == "U" {
			return sc(App(SInt, "f2i", t))
		}
		return sc(App(SInt, "truncR", t))
	case isInt(to) && isInt(from):
		t := asTerm(v)
		if lo, hi, ok := intRange(to); ok {
			if n, isLit := intLit(t); isLit && n.Cmp(big.NewInt(lo)) >= 0 && n.Cmp(big.NewInt(hi)) <= 0 {
				return sc(t)
			}
			if lo == 0 {
				// value-preserving when in range; otherwise wraps
				if flo, fhi, fok := intRange(from); fok && flo >= lo && fhi <= hi {
					return sc(t)
				}
				return sc(EMod(t, Int(hi+1)))
			}
			if flo, fhi, fok := intRange(from); fok && flo >= lo && fhi <= hi {
				return sc(t)
			}
			x.check(st, "safe", "safe/conv", And(Cmp("<=", Int(lo), t), Cmp("<=", t, Int(hi))), call.Pos(), "conversion to "+to.String()+" does not overflow")
			return sc(t)
		}
		if b, ok := to.Underlying().(*types.Basic); ok && (b.Kind() == types.Uint || b.Kind() == types.Uint64) {
			x.check(st, "safe", "safe/conv", Cmp(">=", t, Int(0)), call.Pos(), "conversion to unsigned of a non-negative value")
		}
		return sc(t)
	case isString(to) && isString(from):
		return v
	}
	if sl, ok := to.Underlying().(*types.Slice); ok && isString(from) {
		// []byte(string): fresh slice with unspecified content (only used for output)
		ref := x.allocRef(st)
		n := x.fresh("strlen", SInt)
		st.assume(Cmp(">=", n, Int(0)), "type-inv")
		return SliceV{Ref: ref, Off: Int(0), Len: n, Cap: n, Elem: sl.Elem()}
	}
	if types.Identical(to.Underlying(), from.Underlying()) {
		return v
	}
	fail("conversion %s -> %s not in subset at %s", from, to, x.pos(call.Pos()))
	return nil
}

func (x *Exec) builtin(st *State, call *ast.CallExpr, name string) []Value {
	switch name {
	case "len", "cap":
		v := x.eval(st, call.Args[0])
		switch s := v.(type) {
		case SliceV:
			if name == "len" {
				return []Value{sc(s.Len)}
			}
			return []Value{sc(s.Cap)}
		case ArrayV:
			return []Value{sc(Int(s.N))}
		case Scalar:
			if s.T.Sort == SStr {
				return []Value{sc(App(SInt, "str-len", s.T))}
			}
		}
		fail("len of %T at %s", v, x.pos(call.Pos()))
	case "make":
		t := x.typeOf(call.Args[0])
		sl, ok := t.Underlying().(*types.Slice)
		if !ok {
			if _, isCh := t.Underlying().(*types.Chan); isCh {
				id := x.fresh("chan", SInt)
				st.assume(Cmp(">", id, Int(0)), "fresh-chan")
				ch := OpaqueV{T: id, Typ: t}
				x.ghostSet(st, "sent", ch, Int(0))
				x.ghostSet(st, "closed", ch, TFalse)
				return []Value{ch}
			}
			fail("make(%s) not in subset at %s", t, x.pos(call.Pos()))
		}
		n := asTerm(x.eval(st, call.Args[1]))
		c := n
		if len(call.Args) > 2 {
			c = asTerm(x.eval(st, call.Args[2]))
		}
		x.check(st, "safe", "safe/make", And(Cmp("<=", Int(0), n), Cmp("<=", n, c)), call.Pos(), exprStr(x.eng.fset, call))
		ref := x.allocRef(st)
		s := SliceV{Ref: ref, Off: Int(0), Len: n, Cap: c, Elem: sl.Elem()}
		x.initZero(st, s)
		return []Value{s}
	case "append":
		return []Value{x.doAppend(st, call)}
	case "copy":
		dst := x.eval(st, call.Args[0]).(SliceV)
		src := x.eval(st, call.Args[1]).(SliceV)
		n := x.fresh("copied", SInt)
		st.assume(Eq(n, Ite(Cmp("<=", dst.Len, src.Len), dst.Len, src.Len)), "copy-count")
		key, es := heapKey(dst.Elem)
		x.check(st, "frame", "frame/mod", x.frameOK(st, dst.Ref, key), call.Pos(), "copy destination is within the modifies clause or fresh")
		h := x.heap(st, key, es)
		old := Select(h, dst.Ref)
		srcArr := Select(h, src.Ref)
		na := x.fresh("copy_arr", ArrSort(es))
		j := Term{"cp!j", SInt}
		inWin := And(Cmp("<=", dst.Off, j), Cmp("<", j, Add(dst.Off, n)))
		st.assume(Forall([]Term{j}, Eq(Select(na, j), Ite(inWin, Select(srcArr, Add(src.Off, Sub(j, dst.Off))), Select(old, j))), []Term{Select(na, j)}), "copy-contents")
		st.heaps[key] = Store(h, dst.Ref, na)
		return []Value{sc(n)}
	case "complex":
		re := asTerm(x.convertAssign(x.eval(st, call.Args[0]), types.Typ[types.Float64]))
		im := asTerm(x.convertAssign(x.eval(st, call.Args[1]), types.Typ[types.Float64]))
		return []Value{sc(App(SCx, "cx", re, im))}
	case "close":
		ch := x.eval(st, call.Args[0])
		x.ghostSet(st, "closed", ch, TTrue)
		return nil
	case "panic":
		x.doPanic(st, call)
		st.dead = true
		return nil
	case "new":
		// new(T) for a struct type: a fresh zeroed object, like &T{}
		t := x.typeOf(call.Args[0])
		if _, ok := t.Underlying().(*types.Struct); ok {
			sv := x.zero(st, t).(StructV)
			ref := x.allocRef(st)
			p := PtrV{Ref: ref, Elem: t}
			for name, v := range sv.F {
				x.writeField(st, p, name, v)
			}
			return []Value{p}
		}
		fail("new(%s) not in subset at %s", t, x.pos(call.Pos()))
	case "print", "println":
		// diagnostics to stderr: the arguments are evaluated (their safety obligations count), nothing else changes
		for _, a := range call.Args {
			x.eval(st, a)
		}
		return nil
	}
	fail("builtin %s not in subset at %s", name, x.pos(call.Pos()))
	return nil
}

func (x *Exec) doAppend(st *State, call *ast.CallExpr) Value {
	base := x.eval(st, call.Args[0]).(SliceV)
	key, es := heapKey(base.Elem)
	h := x.heap(st, key, es)
	if call.Ellipsis.IsValid() {
		src := x.eval(st, call.Args[1]).(SliceV)
		srcArr := Select(x.heap(st, key, es), src.Ref)
		return x.appendGeneral(st, call, base, key, es, h, src.Len, func(t Term) Term {
			return Select(srcArr, Add(src.Off, t))
		})
	}
	var elems []Term
	for _, a := range call.Args[1:] {
		elems = append(elems, x.toHeapTerm(x.convertAssign(x.eval(st, a), base.Elem)))
	}
	k := Int(int64(len(elems)))
	newLen := Add(base.Len, k)
	fits := Cmp("<=", newLen, base.Cap)
	if fits.S == "true" {
		key2, _ := heapKey(base.Elem)
		x.check(st, "frame", "frame/mod", x.frameOK(st, base.Ref, key2), call.Pos(), "append in place writes fresh or modifiable memory")
		arr := Select(h, base.Ref)
		for i, e := range elems {
			arr = Store(arr, Add(base.Off, Add(base.Len, Int(int64(i)))), e)
		}
		st.heaps[key] = x.nameHeap(st, key, Store(h, base.Ref, arr))
		return SliceV{Ref: base.Ref, Off: base.Off, Len: newLen, Cap: base.Cap, Elem: base.Elem}
	}
	return x.appendGeneral(st, call, base, key, es, h, k, func(t Term) Term {
		r := elems[len(elems)-1]
		for i := len(elems) - 2; i >= 0; i-- {
			r = Ite(Eq(t, Int(int64(i))), elems[i], r)
		}
		return r
	})
}

// appendGeneral: result array described pointwise over the absolute index j (single trigger select(na, j)).
func (x *Exec) appendGeneral(st *State, call *ast.CallExpr, base SliceV, key, es string, h Term, k Term, elemAt func(t Term) Term) Value {
	newLen := Add(base.Len, k)
	fits := Cmp("<=", newLen, base.Cap)
	fresh := st.alloc
	st.alloc = Add(st.alloc, Int(1))
	ref2 := x.fresh("append_ref", SInt)
	off2 := x.fresh("append_off", SInt)
	st.assume(And(Eq(ref2, Ite(fits, base.Ref, fresh)), Eq(off2, Ite(fits, base.Off, Int(0)))), "append-target")
	cap2 := x.fresh("append_cap", SInt)
	st.assume(And(Implies(fits, Eq(cap2, base.Cap)), Cmp(">=", cap2, newLen)), "append-cap")
	x.check(st, "frame", "frame/mod", Or(Not(fits), x.frameOK(st, base.Ref, key)), call.Pos(), "append in place writes fresh or modifiable memory")
	old := Select(h, base.Ref)
	na := x.fresh("append_arr", ArrSort(es))
	j := Term{"ap!j", SInt}
	rel := Sub(j, off2)
	inOld := And(Cmp("<=", Int(0), rel), Cmp("<", rel, base.Len))
	inNew := And(Cmp("<=", base.Len, rel), Cmp("<", rel, newLen))
	body := And(
		Implies(inOld, Eq(Select(na, j), Select(old, Add(base.Off, rel)))),
		Implies(inNew, Eq(Select(na, j), elemAt(Sub(rel, base.Len)))),
		Implies(And(fits, Not(inOld), Not(inNew)), Eq(Select(na, j), Select(old, j))))
	st.assume(Forall([]Term{j}, body, []Term{Select(na, j)}), "append-contents")
	st.heaps[key] = Store(h, ref2, na)
	return SliceV{Ref: ref2, Off: off2, Len: newLen, Cap: cap2, Elem: base.Elem}
}

// ---------------------------------------------------------------------------
// Closures (bound once to a local and called directly) are inlined.

func (x *Exec) inlineClosure(st *State, c *closure, call *ast.CallExpr) []Value {
	args := x.evalArgs(st, call.Args)
	return x.inlineLit(st, c.lit, args)
}

func (x *Exec) inlineLit(st *State, lit *ast.FuncLit, args []Value) []Value {
	i := 0
	for _, f := range lit.Type.Params.List {
		for _, n := range f.Names {
			st.vars[x.pkg.TypesInfo.Defs[n]] = args[i]
			i++
		}
	}
	if lit.Type.Results != nil && len(lit.Type.Results.List) > 0 {
		fail("closure with results not in subset at %s", x.pos(lit.Pos()))
	}
	// body must complete normally on a single path (straight-line closures)
	savedRet := x.retK
	var end *State
	n := 0
	x.retK = func(s *State, _ []Value) { end = s; n++ }
	x.block(st, lit.Body.List, func(s *State) { end = s; n++ })
	x.retK = savedRet
	if n != 1 {
		fail("closure at %s has %d completion paths (only straight-line closures are inlined)", x.pos(lit.Pos()), n)
	}
	if end != st {
		*st = *end
	}
	return nil
}

// ---------------------------------------------------------------------------
// Static calls

func funcKey(f *types.Func) string {
	pkg := ""
	if f.Pkg() != nil {
		pkg = f.Pkg().Name()
	}
	sig := f.Type().(*types.Signature)
	if r := sig.Recv(); r != nil {
		t := r.Type()
		if p, ok := t.(*types.Pointer); ok {
			t = p.Elem()
		}
		return pkg + "." + typeName(t) + "." + f.Name()
	}
	return pkg + "." + f.Name()
}

func funcPath(f *types.Func) string {
	if f.Pkg() == nil {
		return f.Name()
	}
	sig := f.Type().(*types.Signature)
	if r := sig.Recv(); r != nil {
		t := r.Type()
		ptr := ""
		if p, ok := t.(*types.Pointer); ok {
			t = p.Elem()
			ptr = "*"
		}
		if n, ok := t.(*types.Named); ok {
			return f.Pkg().Path() + "." + ptr + n.Obj().Name() + "." + f.Name()
		}
		return f.Pkg().Path() + "." + ptr + t.String() + "." + f.Name()
	}
	return f.Pkg().Path() + "." + f.Name()
}

func (x *Exec) callStatic(st *State, call *ast.CallExpr, callee *types.Func, recv Value) []Value {
	path := funcPath(callee)
	if !strings.HasPrefix(path, x.eng.modPath) {
		return x.callExternal(st, call, callee, path, recv)
	}
	key := x.eng.keyOf(callee)
	c := x.eng.contracts[key]
	if c == nil {
		if vals, ok := x.inlineExprFunc(st, call, key, callee, recv); ok {
			return vals
		}
		fail("callee %s has no contract (called at %s)", key, x.pos(call.Pos()))
	}
	args := x.evalArgs(st, call.Args)
	sig := callee.Type().(*types.Signature)
	return x.applyContract(st, call, key, c, sig, recv, args)
}

// applyContract: assert requires, havoc per modifies, assume ensures (+ functional abstraction when pure).
func (x *Exec) applyContract(st *State, call *ast.CallExpr, key string, c *FuncContract, sig *types.Signature, recv Value, args []Value) []Value {
	x.eng.appliedContracts[key] = true
	bind := map[string]Value{}
	if sig.Recv() != nil && recv != nil {
		bind[sig.Recv().Name()] = recv
	}
	for i := 0; i < sig.Params().Len(); i++ {
		p := sig.Params().At(i)
		if i < len(args) {
			if old := x.eng.aliasOld(key, p.Name()); old != "" {
				bind[old] = x.convertAssign(args[i], p.Type())
			}
			bind[p.Name()] = x.convertAssign(args[i], p.Type())
		}
	}
	short := key[strings.Index(key, ".")+1:]
	preSt := st.clone()
	envPre := &SpecEnv{x: x, st: preSt, preSt: preSt, bind: bind, bindPre: bind, lets: c.Lets, calleePkg: c.Pkg, bound: map[string]Value{}}
	// case restriction: a cases clause is part of the precondition
	for _, cs := range c.Cases {
		v, ok := bind[cs.Var]
		if !ok {
			continue
		}
		var alts []Term
		for _, lit := range cs.Vals {
			alts = append(alts, Eq(asTerm(v), x.caseLit(lit, asTerm(v).Sort)))
		}
		x.check(st, "pre", fmt.Sprintf("pre/%s#cases", short), Or(alts...), call.Pos(), fmt.Sprintf("%s in %v", cs.Var, cs.Vals))
	}
	for i, r := range c.Requires {
		g := asTerm(x.evalSpec(envPre, r.E))
		for j, cj := range splitConj(g) {
			x.check(st, "pre", fmt.Sprintf("pre/%s#%d.%d", short, i+1, j+1), cj, call.Pos(), r.Src)
		}
	}
	// read frames: what the callee may read of a slice argument must lie inside what this function may read
	if len(x.readSpecs) > 0 {
		for i := 0; i < sig.Params().Len() && i < len(args); i++ {
			a, ok := args[i].(SliceV)
			if !ok {
				continue
			}
			pname := sig.Params().At(i).Name()
			lo, hi := Int(0), a.Len
			for _, rd := range c.Reads {
				if rd.Param == pname {
					lo = asTerm(x.evalSpec(envPre, rd.Lo))
					hi = asTerm(x.evalSpec(envPre, rd.Hi))
				}
			}
			k1, _ := heapKey(a.Elem)
			for _, rs := range x.readSpecs {
				if rs.key != k1 {
					continue
				}
				env := x.specEnvPre(st)
				rlo := asTerm(x.evalSpec(env, rs.lo))
				rhi := asTerm(x.evalSpec(env, rs.hi))
				g := Implies(Eq(a.Ref, rs.ref), Or(Cmp("<=", hi, lo), And(Cmp("<=", Add(rs.off, rlo), Add(a.Off, lo)), Cmp("<=", Add(a.Off, hi), Add(rs.off, rhi)))))
				x.check(st, "reads", "frame/read", g, call.Pos(), "callee "+short+" reads "+pname+" only inside ["+rs.src+") of "+rs.param)
			}
		}
	}
	if c.Panics != nil && !c.PanicsOnly {
		g := asTerm(x.evalSpec(envPre, c.Panics.E))
		x.check(st, "pre", fmt.Sprintf("pre/%s#nopanic", short), Not(g), call.Pos(), "callee does not panic: !("+c.Panics.Src+")")
	}
	// havoc
	if !c.HasMod {
		fail("callee %s has no modifies clause", key)
	}
	for _, m := range c.Modifies {
		if strings.HasPrefix(m, "wraps:") || strings.HasPrefix(m, "ghost:") {
			continue
		}
		star := strings.HasSuffix(m, "[*]")
		name := strings.TrimSuffix(m, "[*]")
		v, ok := bind[name]
		if !ok {
			fail("modifies clause of %s names unknown parameter %s", key, name)
		}
		sv, ok := v.(SliceV)
		if !ok {
			fail("modifies target %s of %s is not a slice", name, key)
		}
		if !star {
			hk, es := heapKey(sv.Elem)
			h := x.heap(st, hk, es)
			// caller-side frame: the callee's writes must be allowed here too
			x.check(st, "frame", "frame/mod", x.frameOK(st, sv.Ref, hk), call.Pos(), "callee "+short+" modifies "+name)
			na := x.fresh("mod_"+name, ArrSort(es))
			// outside the slice window nothing changes
			j := Term{"md!j", SInt}
			st.assume(Forall([]Term{j}, Implies(Or(Cmp("<", j, sv.Off), Cmp(">=", j, Add(sv.Off, sv.Cap))), Eq(Select(na, j), Select(Select(h, sv.Ref), j))), []Term{Select(na, j)}), "call-frame")
			st.heaps[hk] = Store(h, sv.Ref, na)
		} else {
			inner, ok := sv.Elem.Underlying().(*types.Slice)
			if !ok {
				fail("modifies %s: not a slice of slices", m)
			}
			hk, es := heapKey(inner.Elem())
			okey, _ := heapKey(sv.Elem)
			h := x.heap(st, hk, es)
			outer := Select(x.heap(st, okey, SSl), sv.Ref)
			nh := x.fresh("H_"+hk, h.Sort)
			// what the callee may not touch: this function's own non-modifiable parameters and the global tables
			// (anything else the caller still needs must be restated by its invariants / the callee's ensures)
			x.preserveFrameCall(st, hk, h, nh, sv)
			// caller-side frame for every row
			a2 := Term{"md!b", SInt}
			x.check(st, "frame", "frame/mod", Forall([]Term{a2}, Implies(And(Cmp("<=", Int(0), a2), Cmp("<", a2, sv.Len)),
				x.frameOK(st, App(SInt, "s-ref", Select(outer, Add(sv.Off, a2))), hk))), call.Pos(), "callee "+short+" modifies rows of "+name)
			st.heaps[hk] = nh
		}
	}
	if len(c.Ghost) > 0 {
		x.ghostHavoc(st, c.Ghost)
	}
	// callee may allocate
	na := x.fresh("alloc", SInt)
	st.assume(Cmp(">=", na, st.alloc), "alloc-monotone")
	allocBefore := st.alloc
	st.alloc = na
	// results
	var results []Value
	zeroOff := zeroOffsetResults(c, resultNames(sig))
	for i := 0; i < sig.Results().Len(); i++ {
		rt := sig.Results().At(i).Type()
		rv := x.freshResult(st, rt, fmt.Sprintf("%s_r%d", short, i), allocBefore)
		if sv, ok := rv.(SliceV); ok && zeroOff[i] {
			sv.Off = Int(0)
			rv = sv
		}
		results = append(results, rv)
	}
	envPost := &SpecEnv{x: x, st: st, preSt: preSt, bind: bind, bindPre: bind, lets: c.Lets, results: results, calleePkg: c.Pkg, bound: map[string]Value{}, resultNames: resultNames(sig), allocBase: &allocBefore}
	for _, e := range c.Ensures {
		st.assume(asTerm(x.evalSpec(envPost, e.E)), "ensures:"+short)
	}
	for _, e := range c.Defines {
		st.assume(asTerm(x.evalSpec(envPost, e.E)), "defines:"+short)
		x.eng.assume(fmt.Sprintf("%s: its effect is named by a spec function (defines %s): needs %s to be a deterministic function of the arguments that spec function takes (M2 + read frame)", key, e.Src, key))
	}
	if c.Pure {
		if fo := x.eng.funcObjByKey(key); fo != nil {
			x.assumeAbstraction(st, preSt, x.eng.fnConst(fo), sig, recv, args, results)
		}
	}
	return results
}

func resultNames(sig *types.Signature) []string {
	var out []string
	for i := 0; i < sig.Results().Len(); i++ {
		out = append(out, sig.Results().At(i).Name())
	}
	return out
}

func (x *Exec) caseLit(lit, sort string) Term {
	switch lit {
	case "true":
		return TTrue
	case "false":
		return TFalse
	}
	if sort == SReal {
		t, err := RealLit(lit)
		if err != nil {
			fail("bad case literal %s", lit)
		}
		return t
	}
	n, ok := new(big.Int).SetString(lit, 10)
	if !ok {
		fail("bad case literal %s", lit)
	}
	return BigInt(n)
}

// freshResult builds an unconstrained result value of the given type; memory results are fresh allocations
// unless the callee's ensures says otherwise (slices returned by callees are constrained by `ensures`).
func (x *Exec) freshResult(st *State, t types.Type, name string, allocBefore Term) Value {
	switch u := t.Underlying().(type) {
	case *types.Slice:
		s := SliceV{Ref: x.fresh(name+"_ref", SInt), Off: x.fresh(name+"_off", SInt), Len: x.fresh(name+"_len", SInt), Cap: x.fresh(name+"_cap", SInt), Elem: u.Elem()}
		st.assume(And(Cmp("<=", Int(0), s.Off), Cmp("<=", Int(0), s.Len), Cmp("<=", s.Len, s.Cap), Cmp("<=", Int(0), s.Ref), Cmp("<", s.Ref, st.alloc)), "type-inv")
		return s
	case *types.Pointer:
		p := PtrV{Ref: x.fresh(name, SInt), Elem: u.Elem()}
		st.assume(And(Cmp("<=", Int(0), p.Ref), Cmp("<", p.Ref, st.alloc)), "type-inv")
		return p
	case *types.Interface, *types.Chan:
		return OpaqueV{T: x.fresh(name, SInt), Typ: t}
	case *types.Struct:
		return x.freshLike(st, x.zero(st, t), name)
	case *types.Signature:
		return FuncV{T: x.fresh(name, SFn)}
	case *types.Basic:
		v := x.fresh(name, x.modeSort(scalarSort(t)))
		if lo, hi, ok := intRange(t); ok {
			st.assume(And(Cmp("<=", Int(lo), v), Cmp("<=", v, Int(hi))), "type-inv")
		}
		return sc(v)
	}
	fail("result type %s not in subset", t)
	return nil
}

func (x *Exec) modeSort(s string) string {
	if s == SReal && x.mode == "U" {
		return SFl
	}
	return s
}

// ---------------------------------------------------------------------------
// Functional abstraction: result_k == F_key_k(argument values)

func (x *Exec) absArgs(st *State, vals []Value) []Term {
	var out []Term
	for _, v := range vals {
		switch a := v.(type) {
		case SliceV:
			_, es := heapKey(a.Elem)
			seq := x.seqOf(st, a)
			out = append(out, App(ArrSort(es), "trunc_"+sortTag(es), seq, a.Len), a.Len)
		case SeqV:
			fail("sequence argument to abstraction needs an explicit length")
		case StructV:
			fail("struct argument to abstraction not supported")
		default:
			out = append(out, asTerm(v))
		}
	}
	return out
}

func (x *Exec) assumeAbstraction(st, preSt *State, fnT Term, sig *types.Signature, recv Value, args []Value, results []Value) {
	all := args
	if recv != nil {
		if _, isStruct := recv.(StructV); isStruct {
			return // no functional abstraction over struct receivers
		}
		all = append([]Value{recv}, args...)
	}
	ats := append([]Term{fnT}, x.absArgs(preSt, all)...)
	for k, r := range results {
		prefix := fmt.Sprintf("app%d", k)
		switch rv := r.(type) {
		case Scalar:
			st.assume(Eq(rv.T, x.eng.absApp(prefix+"_"+sortTag(rv.T.Sort), ats, rv.T.Sort)), "abstraction")
		case PtrV:
			if stt, ok := rv.Elem.Underlying().(*types.Struct); ok {
				for i := 0; i < stt.NumFields(); i++ {
					fd := stt.Field(i)
					if _, isSl := fd.Type().Underlying().(*types.Slice); isSl {
						continue
					}
					fs := x.modeSort(scalarSort(fd.Type()))
					fv := asTerm(x.readField(st, rv, fd.Name()))
					st.assume(Eq(fv, x.eng.absApp(prefix+"_"+fd.Name(), ats, fs)), "abstraction")
				}
			}
		}
	}
}

// ---------------------------------------------------------------------------
// Calls through function values: candidates come from the contract ("calls f in {A, B}") or,
// for TestFunc-typed values, the uniform runner abstraction.

func (x *Exec) callFuncValue(st *State, call *ast.CallExpr, f FuncV) []Value {
	sig, ok := x.typeOf(call.Fun).Underlying().(*types.Signature)
	if !ok {
		fail("call through non-function at %s", x.pos(call.Pos()))
	}
	args := x.evalArgs(st, call.Args)
	if id, ok := unparen(call.Fun).(*ast.Ident); ok && x.contract != nil && len(x.contract.Calls[id.Name]) > 0 {
		return x.callCandidates(st, call, f.T, sig, args, x.contract.Calls[id.Name])
	}
	return x.applyFnAbstraction(st, call, f.T, sig, args)
}

// callCandidates: `f(args)` where the contract says f is one of a finite set of repository functions.
// Results are shared fresh values; each candidate's contract applies under the guard f == fn(candidate).
// Candidates must be `modifies nothing`.
func (x *Exec) callCandidates(st *State, call *ast.CallExpr, fn Term, sig *types.Signature, args []Value, cands []string) []Value {
	preSt := st.clone()
	na := x.fresh("alloc", SInt)
	st.assume(Cmp(">=", na, st.alloc), "alloc-monotone")
	allocBefore := st.alloc
	st.alloc = na
	var results []Value
	for i := 0; i < sig.Results().Len(); i++ {
		rv := x.freshResult(st, sig.Results().At(i).Type(), fmt.Sprintf("cand_r%d", i), allocBefore)
		if sv, ok := rv.(SliceV); ok {
			all := true
			for _, cn := range cands {
				fo := x.eng.lookupFunc(x, nil, cn)
				if fo == nil {
					all = false
					break
				}
				c := x.eng.contracts[x.eng.keyOf(fo)]
				if c == nil || !zeroOffsetResults(c, resultNames(fo.Type().(*types.Signature)))[i] {
					all = false
				}
			}
			if all {
				sv.Off = Int(0)
				rv = sv
			}
		}
		results = append(results, rv)
	}
	var guards []Term
	for _, cn := range cands {
		fo := x.eng.lookupFunc(x, nil, cn)
		if fo == nil {
			fail("calls clause: unknown function %s", cn)
		}
		key := x.eng.keyOf(fo)
		c := x.eng.contracts[key]
		if c == nil || !c.HasMod || len(c.Modifies) > 0 {
			fail("calls clause: candidate %s needs a contract with `modifies nothing`", cn)
		}
		g := Eq(fn, x.eng.fnConst(fo))
		guards = append(guards, g)
		csig := fo.Type().(*types.Signature)
		bind := map[string]Value{}
		for i := 0; i < csig.Params().Len() && i < len(args); i++ {
			bind[csig.Params().At(i).Name()] = args[i]
		}
		envPre := &SpecEnv{x: x, st: preSt, preSt: preSt, bind: bind, bindPre: bind, lets: c.Lets, calleePkg: c.Pkg, bound: map[string]Value{}}
		for i, r := range c.Requires {
			x.check(st, "pre", fmt.Sprintf("pre/%s#%d", cn, i+1), Implies(g, asTerm(x.evalSpec(envPre, r.E))), call.Pos(), r.Src)
		}
		envPost := &SpecEnv{x: x, st: st, preSt: preSt, bind: bind, bindPre: bind, lets: c.Lets, results: results, calleePkg: c.Pkg, bound: map[string]Value{}, resultNames: resultNames(csig), allocBase: &allocBefore}
		for _, e := range c.Ensures {
			st.assume(Implies(g, asTerm(x.evalSpec(envPost, e.E))), "ensures:"+cn)
		}
	}
	x.check(st, "pre", "pre/candidates", Or(guards...), call.Pos(), "the function value is one of the declared candidates")
	return results
}

// applyFnAbstraction models `f(args)` for an unknown function value f by uninterpreted application:
// every scalar component of the result is app_<field>(f, args...). Results are fresh memory.
func (x *Exec) applyFnAbstraction(st *State, call *ast.CallExpr, fn Term, sig *types.Signature, args []Value) []Value {
	x.eng.assume("functions called through values are pure (write nothing visible to the caller); checked for the repository's runners and round functions under C18")
	ats := append([]Term{fn}, x.absArgs(st, args)...)
	na := x.fresh("alloc", SInt)
	st.assume(Cmp(">=", na, st.alloc), "alloc-monotone")
	allocBefore := st.alloc
	st.alloc = na
	var results []Value
	for i := 0; i < sig.Results().Len(); i++ {
		rt := sig.Results().At(i).Type()
		rv := x.freshResult(st, rt, fmt.Sprintf("app_r%d", i), allocBefore)
		results = append(results, rv)
		x.constrainApp(st, rv, rt, fmt.Sprintf("app%d", i), ats, allocBefore)
	}
	return results
}

func (x *Exec) constrainApp(st *State, rv Value, rt types.Type, prefix string, ats []Term, allocBefore Term) {
	switch v := rv.(type) {
	case Scalar:
		st.assume(Eq(v.T, x.eng.absApp(prefix+"_"+sortTag(v.T.Sort), ats, v.T.Sort)), "fn-abstraction")
	case PtrV:
		st.assume(And(Cmp(">=", v.Ref, allocBefore), Neq(v.Ref, Int(0))), "fn-abstraction-fresh")
		if stt, ok := v.Elem.Underlying().(*types.Struct); ok {
			for i := 0; i < stt.NumFields(); i++ {
				fd := stt.Field(i)
				if _, isSl := fd.Type().Underlying().(*types.Slice); isSl {
					continue
				}
				fs := x.modeSort(scalarSort(fd.Type()))
				st.assume(Eq(asTerm(x.readField(st, v, fd.Name())), x.eng.absApp(prefix+"_"+fd.Name(), ats, fs)), "fn-abstraction")
			}
		}
	case SliceV:
		st.assume(And(Cmp(">=", v.Ref, allocBefore), Eq(v.Off, Int(0))), "fn-abstraction-fresh")
		st.assume(Eq(v.Len, x.eng.absApp(prefix+"_len", ats, SInt)), "fn-abstraction")
		// elements: pointers to fresh structs whose fields are app_<field>(f, args, idx)
		if p, ok := v.Elem.Underlying().(*types.Pointer); ok {
			if stt, ok := p.Elem().Underlying().(*types.Struct); ok {
				key, _ := heapKey(v.Elem)
				h := x.heap(st, key, SInt)
				idx := Term{"ab!i", SInt}
				el := Select(Select(h, v.Ref), idx)
				inR := And(Cmp("<=", Int(0), idx), Cmp("<", idx, v.Len))
				st.assume(Forall([]Term{idx}, Implies(inR, And(Cmp(">=", el, allocBefore), Neq(el, Int(0)))), []Term{el}), "fn-abstraction-fresh")
				for i := 0; i < stt.NumFields(); i++ {
					fd := stt.Field(i)
					if _, isSl := fd.Type().Underlying().(*types.Slice); isSl {
						continue
					}
					fs := x.modeSort(scalarSort(fd.Type()))
					ats2 := append(append([]Term{}, ats...), idx)
					fh := x.fheap(st, typeName(p.Elem())+"."+fd.Name(), fs)
					st.assume(Forall([]Term{idx}, Implies(inR, Eq(Select(fh, el), x.eng.absApp(prefix+"_elem_"+fd.Name(), ats2, fs))), []Term{el}), "fn-abstraction")
				}
			}
		}
	}
}

// ---------------------------------------------------------------------------
// go / defer

func (x *Exec) goStmt(st *State, s *ast.GoStmt) {
	call := s.Call
	if lit, ok := unparen(call.Fun).(*ast.FuncLit); ok {
		// `go func(a){...}(v)`: the body runs exactly once, eventually (M1); modelled as running here
		x.eng.assume("M1: a goroutine started with `go func(){...}()` runs its body exactly once; modelled at the spawn point (schedules not explored)")
		args := x.evalArgs(st, call.Args)
		x.inlineLit(st, lit, args)
		return
	}
	// `go f(args)`: check f's precondition; effects happen concurrently (pool contract, M1)
	fun := unparen(call.Fun)
	var callee *types.Func
	switch f := fun.(type) {
	case *ast.Ident:
		callee, _ = x.pkg.TypesInfo.ObjectOf(f).(*types.Func)
	case *ast.SelectorExpr:
		callee, _ = x.pkg.TypesInfo.ObjectOf(f.Sel).(*types.Func)
	}
	if callee == nil {
		// go through function value: nothing to check here
		x.evalArgs(st, call.Args)
		x.ghostBump(st, "spawned", OpaqueV{T: Int(0)})
		return
	}
	path := funcPath(callee)
	if !strings.HasPrefix(path, x.eng.modPath) {
		x.evalArgs(st, call.Args)
		x.eng.note(x.key, "go "+path+": external goroutine, effects not modelled")
		return
	}
	key := x.eng.keyOf(callee)
	c := x.eng.contracts[key]
	if c == nil {
		fail("goroutine entry %s has no contract (spawned at %s)", key, x.pos(call.Pos()))
	}
	args := x.evalArgs(st, call.Args)
	sig := callee.Type().(*types.Signature)
	bind := map[string]Value{}
	for i := 0; i < sig.Params().Len(); i++ {
		bind[sig.Params().At(i).Name()] = x.convertAssign(args[i], sig.Params().At(i).Type())
	}
	short := key[strings.Index(key, ".")+1:]
	env := &SpecEnv{x: x, st: st, preSt: st, bind: bind, bindPre: bind, lets: c.Lets, calleePkg: c.Pkg, bound: map[string]Value{}}
	for i, r := range c.Requires {
		g := asTerm(x.evalSpec(env, r.E))
		for j, cj := range splitConj(g) {
			x.check(st, "pre", fmt.Sprintf("pre/go-%s#%d.%d", short, i+1, j+1), cj, call.Pos(), r.Src)
		}
	}
	x.ghostBump(st, "spawned", OpaqueV{T: Int(0)})
	x.lastSpawn = bind
}

func (x *Exec) deferStmt(st *State, s *ast.DeferStmt) {
	call := s.Call
	// arguments are evaluated now
	args := x.evalArgs(st, call.Args)
	fun := unparen(call.Fun)
	if id, ok := fun.(*ast.Ident); ok && id.Name == "close" {
		ch := args[0]
		st.defers = append(st.defers, func(s2 *State) { x.ghostSet(s2, "closed", ch, TTrue) })
		return
	}
	if sel, ok := fun.(*ast.SelectorExpr); ok && sel.Sel.Name == "Close" {
		return // file close: no modelled effect
	}
	fail("defer of %s not in subset at %s", exprStr(x.eng.fset, call.Fun), x.pos(s.Pos()))
}

var _ = token.NoPos

// preserveFrameCall: after a call that may modify the rows of `rows`, arrays of this function's parameters
// that are provably not among those rows keep their contents; so do global tables.
func (x *Exec) preserveFrameCall(st *State, key string, old, nh Term, rows SliceV) {
	okey, _ := heapKey(rows.Elem)
	outer := Select(x.heap(st, okey, SSl), rows.Ref)
	// rows of the modified matrix that are fresh (>= alloc0) cannot be parameter arrays (< alloc0)
	q := Term{"fc!a", SInt}
	allFresh := Forall([]Term{q}, Implies(And(Cmp("<=", Int(0), q), Cmp("<", q, rows.Len)), Cmp(">=", App(SInt, "s-ref", Select(outer, Add(rows.Off, q))), x.alloc0)), []Term{Select(outer, Add(rows.Off, q))})
	r := Term{"fr!r", SInt}
	st.assume(Implies(allFresh, Forall([]Term{r}, Implies(Cmp("<", r, x.alloc0), Eq(Select(nh, r), Select(old, r))), []Term{Select(nh, r)})), "call-frame")
	st.assume(Forall([]Term{r}, Implies(And(Cmp("<", Int(0), r), Cmp("<", r, Int(100))), Eq(Select(nh, r), Select(old, r))), []Term{Select(nh, r)}), "call-frame:globals")
}

// zeroOffsetResults: result indexes k for which the contract ensures `off(rk) == 0` as a top-level conjunct.
func zeroOffsetResults(c *FuncContract, names []string) map[int]bool {
	out := map[int]bool{}
	var walk func(e Expr)
	walk = func(e Expr) {
		switch b := e.(type) {
		case *EBin:
			if b.Op == "&&" {
				walk(b.L)
				walk(b.R)
				return
			}
			if b.Op == "==" {
				call, ok1 := b.L.(*ECall)
				lit, ok2 := b.R.(*EInt)
				if ok1 && ok2 && call.Fn == "off" && lit.V == "0" && len(call.Args) == 1 {
					if id, ok := call.Args[0].(*EIdent); ok {
						var k int
						if _, err := fmt.Sscanf(id.Name, "r%d", &k); err == nil && fmt.Sprintf("r%d", k) == id.Name {
							out[k] = true
						}
						for i, n := range names {
							if n != "" && n == id.Name {
								out[i] = true
							}
						}
					}
				}
			}
		}
	}
	for _, en := range c.Ensures {
		walk(en.E)
	}
	return out
}

// inlineExprFunc: a module function without a contract whose body is a single `return e1, ..., ek` (a small helper a
// refactoring may introduce) is evaluated in place: parameters bound to the argument values, the result expressions
// evaluated in the caller's state. Anything else without a contract stops generation.
func (x *Exec) inlineExprFunc(st *State, call *ast.CallExpr, key string, callee *types.Func, recv Value) ([]Value, bool) {
	fd := x.eng.decls[key]
	p := x.eng.declPkg[key]
	if fd == nil || p == nil || fd.Body == nil || len(fd.Body.List) != 1 || recv != nil || x.inlineDepth > 4 {
		return nil, false
	}
	ret, ok := fd.Body.List[0].(*ast.ReturnStmt)
	if !ok || len(ret.Results) == 0 {
		return nil, false
	}
	sig := callee.Type().(*types.Signature)
	if sig.Variadic() {
		return nil, false
	}
	args := x.evalArgs(st, call.Args)
	saved := map[types.Object]Value{}
	had := map[types.Object]bool{}
	for i := 0; i < sig.Params().Len() && i < len(args); i++ {
		po := sig.Params().At(i)
		if v, ok := st.vars[po]; ok {
			saved[po], had[po] = v, true
		}
		st.vars[po] = x.convertAssign(args[i], po.Type())
	}
	oldPkg := x.pkg
	x.pkg = p
	x.inlineDepth++
	var out []Value
	func() {
		defer func() {
			x.pkg = oldPkg
			x.inlineDepth--
			for i := 0; i < sig.Params().Len(); i++ {
				po := sig.Params().At(i)
				if had[po] {
					st.vars[po] = saved[po]
				} else {
					delete(st.vars, po)
				}
			}
		}()
		for i, re := range ret.Results {
			v := x.eval(st, re)
			if i < sig.Results().Len() {
				v = x.convertAssign(v, sig.Results().At(i).Type())
			}
			out = append(out, v)
		}
	}()
	x.eng.note(x.key, "call of "+key+" (no contract, single return expression) evaluated in place")
	return out, true
}
