package main

import (
	"bytes"
	"context"
	"fmt"
	"os"
	"os/exec"
	"path/filepath"
	"strings"
	"sync"
	"time"
)

type solverSpec struct {
	name string
	cmd  func(file string, timeoutS int) []string
}

var solvers = []solverSpec{
	{"z3-5.1.0", func(f string, t int) []string { return []string{"z3-new", fmt.Sprintf("-T:%d", t), f} }},
	{"z3-5.1.0/ematch", func(f string, t int) []string { return []string{"z3-new", fmt.Sprintf("-T:%d", t), "smt.mbqi=false", f} }},
	{"z3-4.8.12", func(f string, t int) []string { return []string{"/usr/bin/z3", fmt.Sprintf("-T:%d", t), f} }},
	{"cvc5-1.0", func(f string, t int) []string {
		return []string{"cvc5", fmt.Sprintf("--tlimit=%d", t*1000), "--quiet", f}
	}},
	{"cvc5-1.0/enum", func(f string, t int) []string {
		return []string{"cvc5", fmt.Sprintf("--tlimit=%d", t*1000), "--quiet", "--full-saturate-quant", f}
	}},
}

type solveResult struct {
	verdict string // unsat | sat | unknown
	solver  string
	secs    float64
	output  string
	all     map[string]string
}

func runOne(ctx context.Context, s solverSpec, file string, timeoutS int) (string, string) {
	args := s.cmd(file, timeoutS)
	cctx, cancel := context.WithTimeout(ctx, time.Duration(timeoutS+2)*time.Second)
	defer cancel()
	cmd := exec.CommandContext(cctx, args[0], args[1:]...)
	var out bytes.Buffer
	cmd.Stdout = &out
	cmd.Stderr = &out
	_ = cmd.Run()
	text := out.String()
	for _, ln := range strings.Split(text, "\n") {
		ln = strings.TrimSpace(ln)
		switch ln {
		case "unsat", "sat", "unknown":
			return ln, text
		}
		if ln == "" || strings.HasPrefix(ln, "WARNING") {
			continue
		}
		break
	}
	if strings.Contains(text, "timeout") || cctx.Err() != nil {
		return "timeout", text
	}
	return "error", text
}

// race runs all solvers; the first `unsat` wins. `sat` from any solver is reported as sat.
// Outside the thorough tier a one-second first stage with the two configurations that win most obligations saves
// three process launches per easy obligation; anything it does not prove goes to the full portfolio.
func race(file string, timeoutS int, all bool) solveResult {
	if !all && timeoutS > 1 {
		r := raceSet([]solverSpec{solvers[0], solvers[4]}, file, 1, false)
		if r.verdict == "unsat" {
			return r
		}
	}
	return raceSet(solvers, file, timeoutS, all)
}

func raceSet(solvers []solverSpec, file string, timeoutS int, all bool) solveResult {
	ctx, cancel := context.WithCancel(context.Background())
	defer cancel()
	type r struct {
		s       string
		v, out  string
		elapsed float64
	}
	ch := make(chan r, len(solvers))
	start := time.Now()
	for _, s := range solvers {
		s := s
		go func() {
			t0 := time.Now()
			v, out := runOne(ctx, s, file, timeoutS)
			ch <- r{s.name, v, out, time.Since(t0).Seconds()}
		}()
	}
	res := solveResult{verdict: "unknown", all: map[string]string{}}
	var satRes *r
	for i := 0; i < len(solvers); i++ {
		x := <-ch
		res.all[x.s] = x.v
		if x.v == "unsat" && res.verdict != "unsat" {
			res.verdict, res.solver, res.secs, res.output = "unsat", x.s, x.elapsed, x.out
			if !all {
				cancel()
				// drain
				go func(n int) {
					for j := 0; j < n; j++ {
						<-ch
					}
				}(len(solvers) - i - 1)
				return res
			}
		}
		if x.v == "sat" && satRes == nil {
			xx := x
			satRes = &xx
		}
		if x.v == "error" && res.output == "" {
			res.output = x.s + ": " + x.out
		}
	}
	if res.verdict == "unsat" {
		if satRes != nil {
			res.verdict = "disagree"
			res.output = fmt.Sprintf("solver disagreement: %v", res.all)
		}
		return res
	}
	if satRes != nil {
		res.verdict, res.solver, res.secs, res.output = "sat", satRes.s, satRes.elapsed, satRes.out
		return res
	}
	res.secs = time.Since(start).Seconds()
	return res
}

type SolveOpts struct {
	TimeoutS int
	All      bool
	Workers  int
	Dir      string
	Keep     bool
}

func (e *Engine) Discharge(obls []*Obligation, opt SolveOpts) error {
	if opt.Workers <= 0 {
		opt.Workers = 8
	}
	if err := os.MkdirAll(opt.Dir, 0o755); err != nil {
		return err
	}
	type job struct {
		o      *Obligation
		file   string
		slices []string
	}
	var jobs []job
	for i, o := range obls {
		if o.Status != "" {
			continue
		}
		q, err := e.BuildQuery(o, false)
		if err != nil {
			o.Status = "error"
			o.Output = err.Error()
			continue
		}
		if len(q) > 4<<20 {
			o.Status = "error"
			o.Output = fmt.Sprintf("tool limit: query is %d bytes (cap 4 MiB)", len(q))
			continue
		}
		f := filepath.Join(opt.Dir, fmt.Sprintf("o%04d.smt2", i))
		if err := os.WriteFile(f, []byte("; "+o.Name+"\n; "+strings.ReplaceAll(o.Src, "\n", " ")+"\n"+q), 0o644); err != nil {
			return err
		}
		o.SmtPath = f
		j := job{o: o, file: f}
		// sliced variants (hypotheses connected to the goal within 1 / 2 steps): tried first, cheap and sound
		if o.Expect != "sat" && len(o.Hyps) > 12 {
			for d := 1; d <= 2; d++ {
				idx := sliceHyps(o, d)
				if len(idx) >= len(o.Hyps)-2 {
					continue
				}
				if qs, err := e.BuildQuerySliced(o, idx); err == nil {
					fs := filepath.Join(opt.Dir, fmt.Sprintf("o%04d.s%d.smt2", i, d))
					if os.WriteFile(fs, []byte("; "+o.Name+" (slice "+fmt.Sprint(d)+")\n"+qs), 0o644) == nil {
						j.slices = append(j.slices, fs)
					}
				}
			}
		}
		jobs = append(jobs, j)
	}
	var wg sync.WaitGroup
	var failMu sync.Mutex
	failCount := map[string]int{}
	ch := make(chan job)
	for w := 0; w < opt.Workers; w++ {
		wg.Add(1)
		go func() {
			defer wg.Done()
			for j := range ch {
				o := j.o
				if o.Expect == "sat" {
					// vacuity guard: must NOT be provable. One solver, short limit.
					v, out := runOne(context.Background(), solvers[0], j.file, 3)
					o.Solver = solvers[0].name
					if v == "unsat" {
						o.Status = "vacuous"
						o.Output = out
					} else {
						o.Status = "discharged"
						o.Output = "cover: " + v
					}
					continue
				}
				sliced := false
				// a function that already has several undecided obligations is a failing function: the remaining ones
				// get a short limit (they are still attempted and reported), so a broken function costs a minute, not five
				tmo := opt.TimeoutS
				if !opt.All {
					failMu.Lock()
					nf := failCount[o.Func]
					failMu.Unlock()
					if nf >= 3 {
						tmo = 4
						r := race(j.file, tmo, false)
						o.Solver, o.Seconds, o.Output = r.solver, r.secs, r.output
						switch r.verdict {
						case "unsat":
							o.Status = "discharged"
						case "sat":
							o.Status = "failed"
						default:
							o.Status = "unknown"
							o.Output = fmt.Sprintf("%v %s (short limit: %d obligations of %s already undecided)", r.all, r.output, nf, o.Func)
						}
						continue
					}
				}
				if len(j.slices) > 0 && !opt.All {
					// quick attempt on the full query first: most obligations discharge in well under a second
					rq := race(j.file, 2, false)
					if rq.verdict == "unsat" || rq.verdict == "sat" {
						o.Solver, o.Seconds, o.Output = rq.solver, rq.secs, rq.output
						if rq.verdict == "unsat" {
							o.Status = "discharged"
						} else {
							o.Status = "failed"
						}
						continue
					}
				}
				for _, fs := range j.slices {
					rs := race(fs, 3, false)
					if rs.verdict == "unsat" {
						o.Solver, o.Seconds, o.Output, o.Status = rs.solver+"/sliced", rs.secs, rs.output, "discharged"
						sliced = true
						break
					}
				}
				if sliced && !opt.All {
					continue
				}
				r := race(j.file, opt.TimeoutS, opt.All)
				if sliced {
					// thorough tier: the full query is still run to detect solver disagreement
					if r.verdict == "sat" || r.verdict == "disagree" {
						o.Status = "error"
						o.Output = "sliced query unsat but full query " + r.verdict
					}
					continue
				}
				o.Solver, o.Seconds, o.Output = r.solver, r.secs, r.output
				switch r.verdict {
				case "unsat":
					o.Status = "discharged"
				case "sat":
					o.Status = "failed"
				case "disagree":
					o.Status = "error"
				default:
					o.Status = "unknown"
					o.Output = fmt.Sprintf("%v %s", r.all, r.output)
				}
				if o.Status != "discharged" && o.Func != "" {
					failMu.Lock()
					failCount[o.Func]++
					failMu.Unlock()
				}
			}
		}()
	}
	for _, j := range jobs {
		ch <- j
	}
	close(ch)
	wg.Wait()
	// second chance for timeouts (a loaded machine must not turn into an alarm): the undecided obligations are
	// re-run one at a time with three times the limit. A `sat` answer is never retried.
	nUnknown := 0
	for _, j := range jobs {
		if j.o.Status == "unknown" && j.o.Expect != "sat" {
			nUnknown++
		}
	}
	if nUnknown > 0 && nUnknown <= 4 {
		// at most four: retried concurrently (many undecided obligations are not a load artefact; no retry then)
		var rw sync.WaitGroup
		for _, j := range jobs {
			o := j.o
			if o.Status != "unknown" || o.Expect == "sat" {
				continue
			}
			rw.Add(1)
			go func(j job, o *Obligation) {
				defer rw.Done()
				r := race(j.file, opt.TimeoutS*3, false)
				if r.verdict == "unsat" {
					o.Status, o.Solver, o.Seconds, o.Output = "discharged", r.solver+"/retry", r.secs, r.output
					return
				}
				if r.verdict == "sat" {
					o.Status, o.Solver, o.Seconds, o.Output = "failed", r.solver+"/retry", r.secs, r.output
				}
			}(j, o)
		}
		rw.Wait()
	}
	return nil
}
