package main

import (
	"flag"
	"fmt"
	"os"
	"strings"
)

func usage() {
	fmt.Fprintln(os.Stderr, `usage:
  vc func <pkg.Func> [-v] [-keep]          verify one function's helper contract (debugging)
  vc check <Cxx> [--tier quick|thorough]   decide one property
  vc replay <file>                          re-run a recorded violation
  vc selftest                               must-fail canaries and must-pass refactors`)
	os.Exit(2)
}

func main() {
	if len(os.Args) < 2 {
		usage()
	}
	switch os.Args[1] {
	case "func":
		os.Exit(cmdFunc(os.Args[2:]))
	case "check":
		os.Exit(cmdCheck(os.Args[2:]))
	case "replay":
		os.Exit(cmdReplay(os.Args[2:]))
	case "selftest":
		os.Exit(cmdSelftest(os.Args[2:]))
	case "all":
		os.Exit(cmdAll(os.Args[2:]))
	case "lemmas":
		os.Exit(cmdLemmas(os.Args[2:]))
	case "locals":
		os.Exit(cmdLocals())
	default:
		usage()
	}
}

func envOr(k, d string) string {
	if v := os.Getenv(k); v != "" {
		return v
	}
	return d
}

func newEngine() (*Engine, error) {
	repo := envOr("VERIF_REPO", "/repo")
	e, err := NewEngine(repo)
	if err != nil {
		return nil, err
	}
	if err := e.LoadSpecs(envOr("VERIF_HOME", "/verif") + "/spec"); err != nil {
		return nil, err
	}
	if err := e.LoadContracts(); err != nil {
		return nil, err
	}
	return e, nil
}

func cmdFunc(args []string) int {
	fs := flag.NewFlagSet("func", flag.ExitOnError)
	verbose := fs.Bool("v", false, "print every obligation")
	keep := fs.String("keep", "", "directory to keep .smt2 files in")
	timeout := fs.Int("t", 10, "per-obligation timeout (s)")
	mode := fs.String("mode", "R", "float mode R|U")
	var keys []string
	for len(args) > 0 && !strings.HasPrefix(args[0], "-") {
		keys = append(keys, args[0])
		args = args[1:]
	}
	fs.Parse(args)
	e, err := newEngine()
	if err != nil {
		fmt.Fprintln(os.Stderr, "error:", err)
		return 2
	}
	dir := *keep
	if dir == "" {
		dir, _ = os.MkdirTemp("", "vc-")
		defer os.RemoveAll(dir)
	}
	rc := 0
	for _, key := range keys {
		obls, err := e.VerifyFunc(key, nil, *mode)
		if err != nil {
			fmt.Println("ERROR:", err)
			rc = 1
		}
		if err := e.Discharge(obls, SolveOpts{TimeoutS: *timeout, Dir: dir, Workers: 8}); err != nil {
			fmt.Println("ERROR:", err)
			return 2
		}
		n, ok := 0, 0
		for _, o := range obls {
			n++
			if o.Status == "discharged" {
				ok++
				if *verbose {
					fmt.Printf("  ok   %-60s %s %.2fs\n", o.Name, o.Solver, o.Seconds)
				}
			} else {
				rc = 1
				fmt.Printf("  %-7s %s  [%s] %s\n      %s\n      %s\n", strings.ToUpper(o.Status), o.Name, o.Pos, o.Src, o.SmtPath, firstLines(o.Output, 3))
			}
		}
		fmt.Printf("%s: %d/%d obligations discharged\n", key, ok, n)
		for _, m := range e.notes[key] {
			fmt.Println("  note:", m)
		}
	}
	return rc
}

func firstLines(s string, n int) string {
	ls := strings.Split(strings.TrimSpace(s), "\n")
	if len(ls) > n {
		ls = ls[:n]
	}
	return strings.Join(ls, " | ")
}

func cmdLemmas(args []string) int {
	e, err := newEngine()
	if err != nil {
		fmt.Fprintln(os.Stderr, "error:", err)
		return 2
	}
	var only map[string]bool
	if len(args) > 0 {
		only = map[string]bool{}
		for _, a := range args {
			only[a] = true
		}
	}
	obls, err := e.LemmaObligations(only)
	if err != nil {
		fmt.Println("ERROR:", err)
		return 1
	}
	dir, _ := os.MkdirTemp("", "vc-")
	if os.Getenv("VC_KEEP") != "" {
		dir = os.Getenv("VC_KEEP")
	} else {
		defer os.RemoveAll(dir)
	}
	e.Discharge(obls, SolveOpts{TimeoutS: 20, Dir: dir, Workers: 8})
	rc := 0
	for _, o := range obls {
		if o.Status == "discharged" {
			fmt.Printf("  ok   %-50s %s %.2fs\n", o.Name, o.Solver, o.Seconds)
		} else {
			rc = 1
			fmt.Printf("  %-7s %s %s\n      %s\n", strings.ToUpper(o.Status), o.Name, o.SmtPath, firstLines(o.Output, 2))
		}
	}
	return rc
}
