package main

// Replay harness driver: runs the real code against the property's oracle through an in-package test
// injected with `go test -overlay` (nothing is written into /repo).

import (
	"encoding/json"
	"fmt"
	"os"
	"os/exec"
	"path/filepath"
	"strings"
	"time"
)

type harnessReq struct {
	Checks []string               `json:"checks"`
	Seed   int64                  `json:"seed"`
	Budget string                 `json:"budget"`
	Input  map[string]interface{} `json:"input,omitempty"`
}

type harnessFinding struct {
	Check    string      `json:"check"`
	Input    interface{} `json:"input"`
	Observed string      `json:"observed"`
	Expected string      `json:"expected"`
}

type harnessResp struct {
	Findings []harnessFinding   `json:"findings"`
	Cases    map[string]int     `json:"cases"`
	MaxErr   map[string]float64 `json:"max_abs_err"`
	Errors   []string           `json:"errors"`
	Raw      string             `json:"-"`
}

// pkgDirOf maps a harness package name to its directory inside the repository.
var harnessPkgDir = map[string]string{
	"randomness": ".",
	"detect":     "detect",
	"fft":        "fft",
	"rddetector": "tools/rddetector",
	"rdgen":      "tools/rdgen",
}

func runHarness(pkg string, req harnessReq, timeout time.Duration) (*harnessResp, error) {
	repo := envOr("VERIF_REPO", "/repo")
	sub, ok := harnessPkgDir[pkg]
	if !ok {
		return nil, fmt.Errorf("no harness for package %s", pkg)
	}
	src := filepath.Join(homeDir(), "harness", pkg, "verif_harness_test.go")
	if _, err := os.Stat(src); err != nil {
		return nil, err
	}
	tmp, err := os.MkdirTemp("", "vc-harness-")
	if err != nil {
		return nil, err
	}
	defer os.RemoveAll(tmp)
	reqPath := filepath.Join(tmp, "req.json")
	outPath := filepath.Join(tmp, "out.json")
	ovPath := filepath.Join(tmp, "overlay.json")
	rb, _ := json.Marshal(req)
	os.WriteFile(reqPath, rb, 0o644)
	ov := map[string]map[string]string{"Replace": {filepath.Join(repo, sub, "verif_harness_test.go"): src}}
	ob, _ := json.Marshal(ov)
	os.WriteFile(ovPath, ob, 0o644)
	cmd := exec.Command("go", "test", "-overlay", ovPath, "-vet=off", "-count=1", fmt.Sprintf("-timeout=%ds", int(timeout.Seconds())), "-run", "^TestVerifHarness$", ".")
	cmd.Dir = filepath.Join(repo, sub)
	cmd.Env = append(os.Environ(), "GOFLAGS=-mod=mod", "GOPROXY=off", "GOSUMDB=off", "GOTOOLCHAIN=local",
		"VERIF_HARNESS_REQ="+reqPath, "VERIF_HARNESS_OUT="+outPath)
	out, runErr := cmd.CombinedOutput()
	resp := &harnessResp{Raw: string(out)}
	b, err := os.ReadFile(outPath)
	if err != nil {
		return resp, fmt.Errorf("harness produced no result (%v): %s", runErr, firstLines(string(out), 12))
	}
	if err := json.Unmarshal(b, resp); err != nil {
		return resp, err
	}
	return resp, nil
}

// which harness checks exercise a function's property-level behaviour
var harnessChecksFor = map[string][]string{
	"randomness.MonoBitFrequencyTest":             {"randomness:monobit"},
	"randomness.MonoBitFrequencyTestBytes":        {"randomness:monobit-bytes"},
	"randomness.selectM":                          {"randomness:blockfreq-auto"},
	"randomness.FrequencyWithinBlockTest":         {"randomness:blockfreq-auto"},
	"randomness.FrequencyWithinBlockProto":        {"randomness:blockfreq"},
	"randomness.subsequencepattern":               {"randomness:poker", "randomness:overlapping"},
	"randomness.PokerProto":                       {"randomness:poker"},
	"randomness.PokerTestBytes":                   {"randomness:poker-bytes"},
	"randomness.OverlappingTemplateMatchingProto": {"randomness:overlapping"},
	"randomness.ApproximateEntropyProto":          {"randomness:apen"},
	"randomness.RunsTest":                         {"randomness:runs"},
	"randomness.RunsDistributionTest":             {"randomness:runsdist"},
	"randomness.selectParameters":                 {"randomness:longestrun"},
	"randomness.LongestRunOfOnesInABlockProto":    {"randomness:longestrun"},
	"randomness.max":                              {"randomness:longestrun", "randomness:cusum"},
	"randomness.abs":                              {"randomness:cusum"},
	"randomness.xor":                              {"randomness:binder", "randomness:autocorr"},
	"randomness.normal_CDF":                       {"randomness:cusum"},
	"randomness.BinaryDerivativeProto":            {"randomness:binder"},
	"randomness.AutocorrelationProto":             {"randomness:autocorr"},
	"randomness.CumulativeTest":                   {"randomness:cusum"},
	"randomness.MatrixRankProto":                  {"randomness:rank"},
	"randomness.rank":                             {"randomness:rank-fn", "randomness:rank"},
	"randomness.rowEchelon":                       {"randomness:rank-fn", "randomness:rank"},
	"randomness.min":                              {"randomness:rank"},
	"randomness.LinearComplexityProto":            {"randomness:lincomp"},
	"randomness.linearComplexity":                 {"randomness:linearComplexity-fn", "randomness:lincomp"},
	"randomness.b2i":                              {"randomness:linearComplexity-fn"},
	"randomness.MaurerUniversalTest":              {"randomness:maurer"},
	"randomness.mutFactorC":                       {"randomness:maurer"},
	"randomness.DiscreteFourierTransformTest":     {"randomness:dft"},
	"randomness.ceilPow2":                         {"randomness:dft"},
}

func splitHarnessChecks(cs []string) map[string][]string {
	out := map[string][]string{}
	for _, c := range cs {
		i := strings.Index(c, ":")
		out[c[:i]] = append(out[c[:i]], c[i+1:])
	}
	return out
}

// searchWitness looks for a concrete input on which the real code violates the property's oracle.
func searchWitness(e *Engine, res *checkResult, o *Obligation, seed int) map[string]interface{} {
	var checks []string
	if extra, ok := propHarness[res.prop.ID]; ok {
		checks = extra[o.Func]
		if len(checks) == 0 {
			checks = extra["*"]
		}
	}
	if len(checks) == 0 {
		checks = harnessChecksFor[o.Func]
	}
	if len(checks) == 0 {
		return nil
	}
	if cached, ok := res.witnessCache[strings.Join(checks, ",")]; ok {
		return cached
	}
	out := map[string]interface{}{"found": false, "searched": checks, "oracle": "property " + res.prop.ID + " (reference implementation written from the property statement)"}
	total := 0
	for pkg, cs := range splitHarnessChecks(checks) {
		resp, err := runHarness(pkg, harnessReq{Checks: cs, Seed: int64(seed), Budget: "quick"}, 300*time.Second)
		if err != nil {
			out["error"] = err.Error()
			continue
		}
		for _, n := range resp.Cases {
			total += n
		}
		if len(resp.Findings) > 0 {
			f := resp.Findings[0]
			out["found"] = true
			out["package"] = pkg
			out["check"] = f.Check
			out["input"] = f.Input
			out["observed"] = f.Observed
			out["expected"] = f.Expected
			out["verdict"] = "property violated on the real code"
			break
		}
	}
	out["cases_tried"] = total
	if res.witnessCache == nil {
		res.witnessCache = map[string]map[string]interface{}{}
	}
	res.witnessCache[strings.Join(checks, ",")] = out
	return out
}

// property-specific replay oracles (by function; "*" = any function of the property)
var propHarness = map[string]map[string][]string{
	"C07": {"detect.Threshold": {"detect:threshold-exhaustive"}, "detect.ThresholdQ": {"detect:thresholdq-perm"}, "*": {"detect:decision-rule", "detect:fast-vs-seq"}},
	"C08": {"*": {"detect:fast-vs-seq"}},
	"C09": {"*": {"detect:failing-source"}},
	"C10": {"*": {"detect:chunking"}},
	"C11": {"*": {"detect:single-detect"}},
	"C12": {"detect.Threshold": {"detect:threshold-exhaustive"}, "detect.ThresholdQ": {"detect:thresholdq-perm"}, "*": {"detect:thresholdq-perm"}},
	"C14": {"*": {"detect:stuck-at", "detect:igamc-tail"}},
	"C13": {"rddetector.worker_2E4": {"rddetector:columns-2E4"}, "rddetector.worker_1E6": {"rddetector:columns-1E6"}, "rddetector.worker_1E8": {"rddetector:columns-1E8", "rddetector:columns-1E6"}, "rddetector.resultWriter": {"rddetector:tool-run"}, "rddetector.main": {"rddetector:tool-run", "rddetector:columns-2E4"}, "*": {"rddetector:columns-2E4", "rddetector:tool-run"}},
	"C20": {"*": {"rdgen:output-dir"}},
	"C15": {"*": {"randomness:entry-points"}},
	"C17": {"*": {"randomness:symmetry"}},
	"C16": {"*": {"randomness:wellformed"}},
	"C18": {"*": {"randomness:purity"}},
	"C19": {"*": {"fft:constructor", "fft:dft-naive", "fft:inverse-roundtrip"}},
	"C05": {"*": {"randomness:dft"}},
}

func rerunWitness(rp map[string]interface{}) (string, int) {
	pkg, _ := rp["package"].(string)
	check, _ := rp["check"].(string)
	in, _ := rp["input"].(map[string]interface{})
	if pkg == "" || check == "" {
		return "replay record has no harness check", 2
	}
	resp, err := runHarness(pkg, harnessReq{Checks: []string{check}, Seed: 0, Budget: "quick", Input: in}, 300*time.Second)
	if err != nil {
		return err.Error(), 2
	}
	if len(resp.Findings) > 0 {
		f := resp.Findings[0]
		return fmt.Sprintf("REPRODUCED %s: observed %s, expected %s", f.Check, f.Observed, f.Expected), 1
	}
	return "not reproduced on the current tree (the recorded input now satisfies the oracle)", 0
}
