package main

// Lemmas: proved once (optionally by induction on one integer parameter), used only by explicit instantiation.

import (
	"fmt"
	"sort"
	"strings"
)

func (e *Engine) LemmaObligations(only map[string]bool) ([]*Obligation, error) {
	var names []string
	for n := range e.specs.Lemmas {
		if only == nil || only[n] {
			names = append(names, n)
		}
	}
	sort.Strings(names)
	var out []*Obligation
	for _, n := range names {
		os, err := e.lemmaObls(e.specs.Lemmas[n])
		if err != nil {
			return out, err
		}
		out = append(out, os...)
	}
	return out, nil
}

func (e *Engine) lemmaObls(lm *Lemma) (obls []*Obligation, err error) {
	if lm.Trusted != "" {
		e.assume(fmt.Sprintf("lemma %s imported, not proved here: %s", lm.Name, lm.Trusted))
		return nil, nil
	}
	if lm.Lifted != "" {
		// proved as `lift` obligations of the function itself (verify.go); usable by callers' proofs through `use`
		e.assume(fmt.Sprintf("lemma %s is the verified behaviour of %s lifted over its functional abstraction (needs: %s is a deterministic function of its arguments, M2)", lm.Name, lm.Lifted, lm.Lifted))
		return nil, nil
	}
	x := e.specExec("R")
	x.key = "lemma." + lm.Name
	x.fuel = lm.Fuel
	if x.fuel == 0 {
		x.fuel = 2
	}
	e.curFuel = x.fuel
	defer func() {
		if r := recover(); r != nil {
			if ve, ok := r.(vcErr); ok {
				err = fmt.Errorf("lemma %s: %s", lm.Name, string(ve))
				return
			}
			panic(r)
		}
	}()
	st := x.pre.clone()
	mkEnv := func(sub map[string]Term) *SpecEnv {
		env := &SpecEnv{x: x, st: st, preSt: st, bind: map[string]Value{}, bindPre: map[string]Value{}, bound: map[string]Value{}}
		for _, p := range lm.Params {
			t := Term{"l!" + p.Name, x.specSort(p.Type)}
			if s, ok := sub[p.Name]; ok {
				t = s
			}
			if strings.HasPrefix(p.Type, "seq<") {
				env.bound[p.Name] = SeqV{t}
			} else {
				env.bound[p.Name] = sc(t)
			}
		}
		return env
	}
	for _, p := range lm.Params {
		x.declareOnce("l!"+p.Name, x.specSort(p.Type))
	}
	env := mkEnv(nil)
	for _, r := range lm.Requires {
		st.assume(asTerm(x.evalSpec(env, r.E)), "lemma-requires")
	}
	if lm.Induction != "" {
		k := Term{"l!" + lm.Induction, SInt}
		step := Int(1)
		if lm.Step != "" {
			step = Term{"l!" + lm.Step, SInt}
			// well-foundedness of the step
			x.oblige(st, "lemma", "step-positive", Cmp(">=", step, Int(1)), 0, "induction step "+lm.Step+" >= 1")
		}
		ih := mkEnv(map[string]Term{lm.Induction: Sub(k, step)})
		var pre, post []Term
		for _, r := range lm.Requires {
			pre = append(pre, asTerm(x.evalSpec(ih, r.E)))
		}
		for _, en := range lm.Ensures {
			post = append(post, asTerm(x.evalSpec(ih, en.E)))
		}
		// Soundness of the step P(k-1) ==> P(k) over the integers needs a base: either the lemma's own requires
		// bound k from below by a term that does not mention k (then P holds vacuously below the bound), or the
		// hypothesis is only available for k-1 >= 0 and P(k) for k <= 0 has to be proved without it.
		if !lowerBounded(lm.Requires, lm.Induction) {
			pre = append(pre, Cmp("<=", Int(0), Sub(k, step)))
		}
		st.assume(Implies(And(pre...), And(post...)), "induction-hypothesis")
	}
	// uses of other (already proved) lemmas
	for i, u := range lm.Uses {
		x.useLemma(st, env, u, "lemma", i)
	}
	// vacuity guard: requires + induction hypothesis + instantiated lemmas must be satisfiable
	co := x.oblige(st, "cover", "cover/hyps", TFalse, 0, "lemma hypotheses are consistent (must fail)")
	co.Expect = "sat"
	for i, en := range lm.Ensures {
		g := asTerm(x.evalSpec(env, en.E))
		for j, cj := range splitConj(g) {
			x.oblige(st, "lemma", fmt.Sprintf("ensures#%d.%d", i+1, j+1), cj, 0, en.Src)
		}
	}
	return x.obls, nil
}

// lowerBounded: some top-level conjunct of the requires clauses has the form  X <= k, X < k, k >= X, k > X
// with k the induction variable and X an expression that does not mention k.
func lowerBounded(reqs []Clause, k string) bool {
	var mentions func(e Expr) bool
	mentions = func(e Expr) bool {
		switch e := e.(type) {
		case *EIdent:
			return e.Name == k
		case *EUn:
			return mentions(e.X)
		case *EBin:
			return mentions(e.L) || mentions(e.R)
		case *ECond:
			return mentions(e.C) || mentions(e.A) || mentions(e.B)
		case *ECall:
			for _, a := range e.Args {
				if mentions(a) {
					return true
				}
			}
			return false
		case *EIndex:
			return mentions(e.X) || mentions(e.I)
		case *ESlice:
			return mentions(e.X) || (e.Lo != nil && mentions(e.Lo)) || (e.Hi != nil && mentions(e.Hi))
		case *EField:
			return mentions(e.X)
		case *EQuant:
			return true // conservative
		case *EOld:
			return mentions(e.X)
		}
		return false
	}
	isK := func(e Expr) bool { id, ok := e.(*EIdent); return ok && id.Name == k }
	var conj func(e Expr) bool
	conj = func(e Expr) bool {
		b, ok := e.(*EBin)
		if !ok {
			return false
		}
		switch b.Op {
		case "&&":
			return conj(b.L) || conj(b.R)
		case "<=", "<":
			return isK(b.R) && !mentions(b.L)
		case ">=", ">":
			return isK(b.L) && !mentions(b.R)
		}
		return false
	}
	for _, r := range reqs {
		if conj(r.E) {
			return true
		}
	}
	return false
}
