package main

// Lemmas: proved once (optionally by induction on one integer parameter), used only by explicit instantiation.

import (
	"fmt"
	"sort"
	"strings"
)

func (e *Engine) LemmaObligations(only map[string]bool) ([]*Obligation, error) {
	var names []string
	for n := range e.specs.Lemmas {
		if only == nil || only[n] {
			names = append(names, n)
		}
	}
	sort.Strings(names)
	var out []*Obligation
	for _, n := range names {
		os, err := e.lemmaObls(e.specs.Lemmas[n])
		if err != nil {
			return out, err
		}
		out = append(out, os...)
	}
	return out, nil
}

func (e *Engine) lemmaObls(lm *Lemma) (obls []*Obligation, err error) {
	if lm.Trusted != "" {
		e.assume(fmt.Sprintf("lemma %s imported, not proved here: %s", lm.Name, lm.Trusted))
		return nil, nil
	}
	x := e.specExec("R")
	x.key = "lemma." + lm.Name
	x.fuel = lm.Fuel
	if x.fuel == 0 {
		x.fuel = 2
	}
	e.curFuel = x.fuel
	defer func() {
		if r := recover(); r != nil {
			if ve, ok := r.(vcErr); ok {
				err = fmt.Errorf("lemma %s: %s", lm.Name, string(ve))
				return
			}
			panic(r)
		}
	}()
	st := x.pre.clone()
	mkEnv := func(sub map[string]Term) *SpecEnv {
		env := &SpecEnv{x: x, st: st, preSt: st, bind: map[string]Value{}, bindPre: map[string]Value{}, bound: map[string]Value{}}
		for _, p := range lm.Params {
			t := Term{"l!" + p.Name, x.specSort(p.Type)}
			if s, ok := sub[p.Name]; ok {
				t = s
			}
			if strings.HasPrefix(p.Type, "seq<") {
				env.bound[p.Name] = SeqV{t}
			} else {
				env.bound[p.Name] = sc(t)
			}
		}
		return env
	}
	for _, p := range lm.Params {
		x.declareOnce("l!"+p.Name, x.specSort(p.Type))
	}
	env := mkEnv(nil)
	for _, r := range lm.Requires {
		st.assume(asTerm(x.evalSpec(env, r.E)), "lemma-requires")
	}
	if lm.Induction != "" {
		k := Term{"l!" + lm.Induction, SInt}
		ih := mkEnv(map[string]Term{lm.Induction: Sub(k, Int(1))})
		var pre, post []Term
		for _, r := range lm.Requires {
			pre = append(pre, asTerm(x.evalSpec(ih, r.E)))
		}
		for _, en := range lm.Ensures {
			post = append(post, asTerm(x.evalSpec(ih, en.E)))
		}
		st.assume(Implies(And(pre...), And(post...)), "induction-hypothesis")
	}
	// uses of other (already proved) lemmas
	for i, u := range lm.Uses {
		x.useLemma(st, env, u, "lemma", i)
	}
	for i, en := range lm.Ensures {
		g := asTerm(x.evalSpec(env, en.E))
		for j, cj := range splitConj(g) {
			x.oblige(st, "lemma", fmt.Sprintf("ensures#%d.%d", i+1, j+1), cj, 0, en.Src)
		}
	}
	return x.obls, nil
}
