package main

// Symbolic executor over the typed AST: expressions.

import (
	"fmt"
	"go/ast"
	"go/constant"
	"go/token"
	"go/types"
	"math/big"
	"regexp"
	"strings"

	"golang.org/x/tools/go/packages"
)

type Obligation struct {
	Name   string
	Class  string // safe, frame, inv-init, inv-keep, dec, post, pre, pinned, panic, cover, lemma, ground, proto
	Func   string
	Case   string
	Hyps   []Hyp
	Goal   Term
	Decls  *[]string
	Pos    string
	Prop   string // pinned property id ("" for helper obligations)
	Src    string // source text of the clause / expression
	Expect string // "unsat" normally; "sat" for cover obligations that must fail
	Mode   string
	Fuel   int

	// filled by the solver stage
	Status  string // discharged | failed | unknown | error
	Solver  string
	Seconds float64
	Output  string
	SmtPath string
}

type Exec struct {
	eng      *Engine
	pkg      *packages.Package
	fn       *ast.FuncDecl
	fnObj    *types.Func
	key      string
	contract *FuncContract
	pinned   []*FuncContract
	caseLbl  string
	caseVals map[string]Term

	pre      *State
	alloc0   Term
	decls    *[]string
	declared map[string]bool
	obls     []*Obligation
	oblNames map[string]int
	loopOrd  map[ast.Stmt]int
	nLoops   int

	brk, cont []func(*State)
	retK      func(*State, []Value)
	results   []*types.Var
	params    []*types.Var
	recv      *types.Var
	modSpecs  []modSpec
	iterVar   map[int]Term // hidden range index / iteration counter per loop ordinal (current symbol kept in state.ghost)
	mode      string
	inlineDepth int
	pathCount int
	assumptions map[string]bool // engine-level assumptions used (reported)
	fuel        int
	hiddenStack []string
	ordStack    []int
	lastSpawn   map[string]Value
	lastWrite   *SliceV
	readSpecs   []readSpecR
}

type modSpec struct {
	param string
	star  bool // param[*]
	v     Value
}

var symSan = regexp.MustCompile(`[^A-Za-z0-9_]`)

func (x *Exec) fresh(base, sort string) Term {
	x.eng.counter++
	name := fmt.Sprintf("%s!%d", symSan.ReplaceAllString(base, "_"), x.eng.counter)
	*x.decls = append(*x.decls, fmt.Sprintf("(declare-fun %s () %s)", name, sort))
	return Term{name, sort}
}

func (x *Exec) declareOnce(name, sort string) Term {
	if !x.declared[name] {
		x.declared[name] = true
		*x.decls = append(*x.decls, fmt.Sprintf("(declare-fun %s () %s)", name, sort))
	}
	return Term{name, sort}
}

func (x *Exec) pos(p token.Pos) string {
	pp := x.eng.fset.Position(p)
	f := pp.Filename
	if i := strings.Index(f, "/repo/"); i >= 0 {
		f = f[i+6:]
	}
	return fmt.Sprintf("%s:%d", f, pp.Line)
}

func (x *Exec) oblige(st *State, class, name string, goal Term, p token.Pos, src string) *Obligation {
	full := x.key + "/" + name
	if x.mode == "U" {
		full = x.key + "/U/" + name
	}
	if x.caseLbl != "" {
		full += "@" + x.caseLbl
	}
	x.oblNames[full]++
	if n := x.oblNames[full]; n > 1 {
		full = fmt.Sprintf("%s~%d", full, n)
	}
	o := &Obligation{Name: full, Class: class, Func: x.key, Case: x.caseLbl,
		Hyps: append([]Hyp(nil), st.pc...), Goal: goal, Decls: x.decls, Src: src, Expect: "unsat", Mode: x.mode, Fuel: x.fuel}
	if p.IsValid() {
		o.Pos = x.pos(p)
	}
	x.obls = append(x.obls, o)
	return o
}

// check emits an obligation and then assumes the goal on the path (standard assert semantics).
func (x *Exec) check(st *State, class, name string, goal Term, p token.Pos, src string) {
	if goal.S == "true" {
		// still recorded: trivially discharged obligations count (and show the check was generated)
		o := x.oblige(st, class, name, goal, p, src)
		o.Status = "discharged"
		o.Solver = "syntactic"
		return
	}
	x.oblige(st, class, name, goal, p, src)
	st.assume(goal, "checked:"+name)
}

// ---------------------------------------------------------------------------
// Heaps

func (x *Exec) heap(st *State, key, elemSort string) Term {
	if h, ok := st.heaps[key]; ok {
		return h
	}
	h := x.declareOnce("H_"+key+"_0", HeapSort(elemSort))
	st.heaps[key] = h
	return h
}

func (x *Exec) preHeap(key, elemSort string) Term {
	return x.declareOnce("H_"+key+"_0", HeapSort(elemSort))
}

func (x *Exec) fheap(st *State, key, sort string) Term {
	if h, ok := st.fheaps[key]; ok {
		return h
	}
	h := x.declareOnce("F_"+symSan.ReplaceAllString(key, "_")+"_0", ArrSort(sort))
	st.fheaps[key] = h
	return h
}

func (x *Exec) preFheap(key, sort string) Term {
	return x.declareOnce("F_"+symSan.ReplaceAllString(key, "_")+"_0", ArrSort(sort))
}

func sliceTerm(s SliceV) Term {
	return App(SSl, "mk-slice", s.Ref, s.Off, s.Len, s.Cap)
}

func sliceFromTerm(t Term, elem types.Type, pre bool) SliceV {
	return SliceV{Ref: App(SInt, "s-ref", t), Off: App(SInt, "s-off", t), Len: App(SInt, "s-len", t), Cap: App(SInt, "s-cap", t), Elem: elem, Pre: pre}
}

// fromHeapTerm wraps a term read from a heap into a Value of Go type t, adding type invariants to the path.
func (x *Exec) wrapScalar(st *State, t Term, typ types.Type, pre bool) Value {
	switch u := typ.Underlying().(type) {
	case *types.Slice:
		s := sliceFromTerm(t, u.Elem(), pre)
		if st != nil {
			st.assume(App(SBool, "slice-ok", t), "type-inv")
		}
		return s
	case *types.Pointer:
		return PtrV{Ref: t, Elem: u.Elem(), Pre: pre}
	case *types.Signature:
		return FuncV{T: t}
	case *types.Interface, *types.Chan:
		return OpaqueV{T: t, Typ: typ}
	case *types.Basic:
		if lo, hi, ok := intRange(typ); ok && st != nil {
			st.assume(And(Cmp("<=", Int(lo), t), Cmp("<=", t, Int(hi))), "type-inv")
		}
		return sc(t)
	}
	return sc(t)
}

// readElem reads s[idx] (idx relative to the slice) without bounds obligations.
func (x *Exec) readElem(st *State, s SliceV, idx Term) Value {
	if stt, ok := s.Elem.Underlying().(*types.Struct); ok {
		f := map[string]Value{}
		for i := 0; i < stt.NumFields(); i++ {
			fd := stt.Field(i)
			key := "st_" + typeName(s.Elem) + "." + fd.Name()
			es := scalarSort(fd.Type())
			var h Term
			if s.Pre {
				h = x.preHeap(key, es)
			} else {
				h = x.heap(st, key, es)
			}
			f[fd.Name()] = x.wrapScalar(st, Select(Select(h, s.Ref), idxAt(s.Off, idx)), fd.Type(), s.Pre)
		}
		return StructV{Typ: s.Elem, F: f}
	}
	key, es := heapKey(s.Elem)
	var h Term
	if s.Pre {
		h = x.preHeap(key, es)
	} else {
		h = x.heap(st, key, es)
	}
	return x.wrapScalar(st, Select(Select(h, s.Ref), idxAt(s.Off, idx)), s.Elem, s.Pre)
}

// idxAt is off+idx; with a symbolic offset and index it is wrapped in the uninterpreted `ix`
// (axiom: ix(o,i) = o+i) so that quantifier patterns over slice elements contain no arithmetic
// (E-matching on `+` is unreliable).
func idxAt(off, idx Term) Term {
	if _, ok := intLit(off); ok {
		return Add(off, idx)
	}
	if _, ok := intLit(idx); ok {
		return Add(off, idx)
	}
	if useIx {
		return App(SInt, "ix", off, idx)
	}
	return Add(off, idx)
}

// useIx: wrap symbolic-offset indices in the uninterpreted ix(o,i). Off by default: callee results whose
// contract ensures off(r) == 0 get a literal zero offset instead (see zeroOffsetResults), which removes the
// arithmetic from the patterns that matter here.
var useIx = true

func (x *Exec) toHeapTerm(v Value) Term {
	switch v := v.(type) {
	case SliceV:
		return sliceTerm(v)
	default:
		return asTerm(v)
	}
}

// nameHeap replaces a large heap term by a fresh constant defined equal to it (terms are strings: this keeps
// chains of stores linear instead of exponential).
func (x *Exec) nameHeap(st *State, key string, t Term) Term {
	if len(t.S) < 160 {
		return t
	}
	n := x.fresh("H_"+key, t.Sort)
	st.pc = append(st.pc, Hyp{Eq(n, t), "def:" + key})
	return n
}

func (x *Exec) writeElem(st *State, s SliceV, idx Term, v Value) {
	if stt, ok := s.Elem.Underlying().(*types.Struct); ok {
		sv := v.(StructV)
		for i := 0; i < stt.NumFields(); i++ {
			fd := stt.Field(i)
			key := "st_" + typeName(s.Elem) + "." + fd.Name()
			es := scalarSort(fd.Type())
			h := x.heap(st, key, es)
			st.heaps[key] = x.nameHeap(st, key, Store(h, s.Ref, Store(Select(h, s.Ref), idxAt(s.Off, idx), x.toHeapTerm(sv.F[fd.Name()]))))
		}
		return
	}
	key, es := heapKey(s.Elem)
	h := x.heap(st, key, es)
	st.heaps[key] = x.nameHeap(st, key, Store(h, s.Ref, Store(Select(h, s.Ref), idxAt(s.Off, idx), x.toHeapTerm(v))))
}

// seqOf gives the spec-level sequence denoted by a slice (its window, re-based at 0).
func (x *Exec) seqOf(st *State, s SliceV) Term {
	key, es := heapKey(s.Elem)
	var h Term
	if s.Pre {
		h = x.preHeap(key, es)
	} else {
		h = x.heap(st, key, es)
	}
	arr := Select(h, s.Ref)
	if s.Off.S == "0" {
		return arr
	}
	return App(ArrSort(es), "shift_"+sortTag(es), arr, s.Off)
}

func sortTag(s string) string {
	switch s {
	case SInt:
		return "i"
	case SReal:
		return "r"
	case SBool:
		return "b"
	case SSl:
		return "s"
	case SCx:
		return "c"
	case SStr:
		return "t"
	case SFn:
		return "f"
	}
	return symSan.ReplaceAllString(s, "_")
}

// frameOK is the condition under which a store to ref is permitted by the modifies clause.
func (x *Exec) frameOK(st *State, ref Term, key string) Term {
	conds := []Term{Cmp(">=", ref, x.alloc0)}
	for _, m := range x.modSpecs {
		sv, ok := m.v.(SliceV)
		if !ok {
			continue
		}
		if !m.star {
			k, _ := heapKey(sv.Elem)
			if k == key {
				conds = append(conds, Eq(ref, sv.Ref))
			}
			continue
		}
		// param[*]: rows of the (entry) outer slice
		inner, ok := sv.Elem.Underlying().(*types.Slice)
		if !ok {
			continue
		}
		k, _ := heapKey(inner.Elem())
		if k != key {
			continue
		}
		okey, _ := heapKey(sv.Elem)
		a := Term{"fa!a", SInt}
		row := Select(Select(x.preHeap(okey, SSl), sv.Ref), Add(sv.Off, a))
		conds = append(conds, Exists([]Term{a}, And(Cmp("<=", Int(0), a), Cmp("<", a, sv.Len), Eq(ref, App(SInt, "s-ref", row)))))
	}
	return Or(conds...)
}

// ---------------------------------------------------------------------------
// Go expressions

func (x *Exec) typeOf(e ast.Expr) types.Type {
	if tv, ok := x.pkg.TypesInfo.Types[e]; ok {
		return tv.Type
	}
	if id, ok := e.(*ast.Ident); ok {
		if o := x.pkg.TypesInfo.ObjectOf(id); o != nil {
			return o.Type()
		}
	}
	fail("no type for expression at %s", x.pos(e.Pos()))
	return nil
}

func (x *Exec) constTerm(cv constant.Value, t types.Type) (Value, bool) {
	if cv == nil {
		return nil, false
	}
	switch cv.Kind() {
	case constant.Bool:
		if constant.BoolVal(cv) {
			return sc(TTrue), true
		}
		return sc(TFalse), true
	case constant.Int:
		if t != nil && isFloat(t) {
			r, _ := new(big.Rat).SetString(cv.ExactString())
			return sc(x.realConst(r)), true
		}
		n, _ := new(big.Int).SetString(cv.ExactString(), 10)
		return sc(BigInt(n)), true
	case constant.Float:
		if t != nil && isInt(t) {
			if i := constant.ToInt(cv); i.Kind() == constant.Int {
				n, _ := new(big.Int).SetString(i.ExactString(), 10)
				return sc(BigInt(n)), true
			}
		}
		// Exact value of the float64 the compiler will materialise.
		f, _ := constant.Float64Val(cv)
		r := new(big.Rat)
		r.SetFloat64(f)
		// Prefer the short decimal when it denotes the same float64 (keeps VCs readable and
		// lets literal 0.5 == 1/2 fold); R-mode reads constants as that decimal real.
		if dr, ok := new(big.Rat).SetString(cv.ExactString()); ok {
			r = dr
		}
		return sc(x.realConst(r)), true
	case constant.String:
		return sc(x.eng.strConst(constant.StringVal(cv))), true
	}
	return nil, false
}

func (x *Exec) realConst(r *big.Rat) Term {
	if x.mode == "U" {
		return x.eng.flConst(r)
	}
	return RatTerm(r)
}

func (x *Exec) eval(st *State, e ast.Expr) Value {
	// constants first
	if tv, ok := x.pkg.TypesInfo.Types[e]; ok && tv.Value != nil {
		if isFloat(tv.Type) && x.mode != "U" {
			// R-mode reads constant expressions as the exact decimal/rational the source denotes
			// (go/types rounds typed constants to float64; the difference is part of A-float)
			if r, ok := x.exactConst(e); ok {
				return sc(RatTerm(r))
			}
		}
		if v, ok := x.constTerm(tv.Value, tv.Type); ok {
			return v
		}
	}
	switch e := e.(type) {
	case *ast.ParenExpr:
		return x.eval(st, e.X)
	case *ast.Ident:
		return x.evalIdent(st, e)
	case *ast.BasicLit:
		fail("non-constant literal at %s", x.pos(e.Pos()))
	case *ast.BinaryExpr:
		return x.evalBinary(st, e)
	case *ast.UnaryExpr:
		return x.evalUnary(st, e)
	case *ast.CallExpr:
		vs := x.evalCall(st, e)
		if len(vs) == 1 {
			return vs[0]
		}
		return TupleV{vs}
	case *ast.IndexExpr:
		return x.evalIndex(st, e)
	case *ast.SliceExpr:
		return x.evalSliceExpr(st, e)
	case *ast.SelectorExpr:
		return x.evalSelector(st, e)
	case *ast.CompositeLit:
		return x.evalComposite(st, e, false)
	case *ast.FuncLit:
		return FuncV{T: x.fresh("closure", SFn), Lit: &closure{lit: e}}
	case *ast.StarExpr:
		fail("pointer dereference not in subset at %s", x.pos(e.Pos()))
	}
	fail("expression %T not in subset at %s", e, x.pos(e.Pos()))
	return nil
}

type closure struct {
	lit *ast.FuncLit
}

func (x *Exec) evalIdent(st *State, id *ast.Ident) Value {
	obj := x.pkg.TypesInfo.ObjectOf(id)
	if obj == nil {
		fail("unresolved identifier %s at %s", id.Name, x.pos(id.Pos()))
	}
	switch o := obj.(type) {
	case *types.Nil:
		return x.zero(st, x.typeOf(id))
	case *types.Const:
		v, ok := x.namedConstTerm(o)
		if !ok {
			fail("constant %s", id.Name)
		}
		return v
	case *types.Var:
		if v, ok := st.vars[o]; ok {
			return v
		}
		if o.Parent() == o.Pkg().Scope() || (o.Pkg() != nil && o.Parent() == nil && !o.IsField()) {
			return x.eng.globalVar(x, st, o)
		}
		if o.Pkg() != nil && o.Pkg().Scope().Lookup(o.Name()) == o {
			return x.eng.globalVar(x, st, o)
		}
		fail("variable %s used before assignment at %s", id.Name, x.pos(id.Pos()))
	case *types.Func:
		return FuncV{T: x.eng.fnConst(o), Obj: o}
	}
	fail("identifier %s (%T) not in subset at %s", id.Name, obj, x.pos(id.Pos()))
	return nil
}

func (x *Exec) zero(st *State, t types.Type) Value {
	switch u := t.Underlying().(type) {
	case *types.Basic:
		switch {
		case u.Info()&types.IsBoolean != 0:
			return sc(TFalse)
		case u.Info()&types.IsInteger != 0:
			return sc(Int(0))
		case u.Info()&types.IsFloat != 0:
			return sc(x.realConst(new(big.Rat)))
		case u.Info()&types.IsString != 0:
			return sc(x.eng.strConst(""))
		case u.Info()&types.IsComplex != 0:
			z := x.realConst(new(big.Rat))
			return sc(App(SCx, "cx", z, z))
		case u.Kind() == types.UntypedNil:
			return sc(Int(0))
		}
	case *types.Slice:
		return SliceV{Ref: Int(0), Off: Int(0), Len: Int(0), Cap: Int(0), Elem: u.Elem()}
	case *types.Pointer:
		return PtrV{Ref: Int(0), Elem: u.Elem()}
	case *types.Interface, *types.Chan:
		return OpaqueV{T: Int(0), Typ: t}
	case *types.Signature:
		return FuncV{T: Term{"fn_nil", SFn}}
	case *types.Array:
		_, es := heapKey(u.Elem())
		z := asTerm(x.zero(st, u.Elem()))
		return ArrayV{Arr: Term{"((as const " + ArrSort(es) + ") " + z.S + ")", ArrSort(es)}, N: u.Len(), Elem: u.Elem()}
	case *types.Struct:
		f := map[string]Value{}
		for i := 0; i < u.NumFields(); i++ {
			f[u.Field(i).Name()] = x.zero(st, u.Field(i).Type())
		}
		return StructV{Typ: t, F: f}
	}
	fail("no zero value for %s", t)
	return nil
}

func (x *Exec) evalBinary(st *State, e *ast.BinaryExpr) Value {
	if e.Op == token.LAND || e.Op == token.LOR {
		l := asTerm(x.eval(st, e.X))
		// right operand evaluated under the guard (its safety obligations are conditional)
		sub := st.clone()
		if e.Op == token.LAND {
			sub.assume(l, "guard")
		} else {
			sub.assume(Not(l), "guard")
		}
		base := len(sub.pc)
		r := asTerm(x.eval(sub, e.Y))
		// propagate type-invariant assumptions made while evaluating the right operand, guarded
		for _, h := range sub.pc[base:] {
			if e.Op == token.LAND {
				st.assume(Implies(l, h.T), h.Label)
			} else {
				st.assume(Implies(Not(l), h.T), h.Label)
			}
		}
		if e.Op == token.LAND {
			return sc(And(l, r))
		}
		return sc(Or(l, r))
	}
	lv := x.eval(st, e.X)
	rv := x.eval(st, e.Y)
	lt := x.typeOf(e.X)
	switch e.Op {
	case token.EQL, token.NEQ:
		var eq Term
		switch l := lv.(type) {
		case SliceV: // comparison with nil
			eq = Eq(l.Ref, rv.(SliceV).Ref)
		default:
			eq = Eq(asTerm(lv), asTerm(rv))
		}
		if e.Op == token.NEQ {
			return sc(Not(eq))
		}
		return sc(eq)
	}
	l, r := asTerm(lv), asTerm(rv)
	switch e.Op {
	case token.LSS:
		return sc(x.fcmp("<", l, r))
	case token.LEQ:
		return sc(x.fcmp("<=", l, r))
	case token.GTR:
		return sc(x.fcmp(">", l, r))
	case token.GEQ:
		return sc(x.fcmp(">=", l, r))
	}
	rt := x.typeOf(e)
	return sc(x.arith(st, e.Op, l, r, lt, rt, e))
}

func (x *Exec) fcmp(op string, l, r Term) Term {
	if l.Sort == SFl {
		return App(SBool, "f"+map[string]string{"<": "lt", "<=": "le", ">": "gt", ">=": "ge"}[op], l, r)
	}
	return Cmp(op, l, r)
}

// arith applies a Go arithmetic operator. lt is the operand type.
func (x *Exec) arith(st *State, op token.Token, l, r Term, lt, rt types.Type, at ast.Node) Term {
	if isFloat(lt) {
		if x.mode == "U" {
			switch op {
			case token.ADD:
				return App(SFl, "fadd", l, r)
			case token.SUB:
				return App(SFl, "fsub", l, r)
			case token.MUL:
				return App(SFl, "fmul", l, r)
			case token.QUO:
				return App(SFl, "fdiv", l, r)
			}
			fail("float operator %s at %s", op, x.pos(at.Pos()))
		}
		switch op {
		case token.ADD:
			return Add(l, r)
		case token.SUB:
			return Sub(l, r)
		case token.MUL:
			return Mul(l, r)
		case token.QUO:
			// IEEE division by zero yields Inf/NaN: flagged as a side obligation (NaN discipline, C16)
			// NaN discipline (C16): 0/0 never happens. x/0 with x != 0 is +-Inf in IEEE arithmetic; R-mode leaves its
			// value unconstrained, so posts over such a quotient must be stated conditionally.
			x.check(st, "fp", "safe/fp/div", Or(Neq(r, RatTerm(new(big.Rat))), Neq(l, RatTerm(new(big.Rat)))), at.Pos(), "no 0/0: float divisor != 0 or numerator != 0")
			return RDiv(l, r)
		}
		fail("float operator %s at %s", op, x.pos(at.Pos()))
	}
	if isComplex(lt) {
		switch op {
		case token.ADD:
			return App(SCx, "cadd", l, r)
		case token.SUB:
			return App(SCx, "csub", l, r)
		case token.MUL:
			return App(SCx, "cmul", l, r)
		}
		fail("complex operator %s at %s", op, x.pos(at.Pos()))
	}
	if isString(lt) && op == token.ADD {
		return App(SStr, "str-cat", l, r)
	}
	if !isInt(lt) {
		fail("operator %s on %s at %s", op, lt, x.pos(at.Pos()))
	}
	var res Term
	switch op {
	case token.ADD:
		res = Add(l, r)
	case token.SUB:
		res = Sub(l, r)
	case token.MUL:
		res = Mul(l, r)
	case token.QUO:
		x.check(st, "safe", "safe/div", Neq(r, Int(0)), at.Pos(), "divisor != 0")
		res = TDiv(l, r)
	case token.REM:
		x.check(st, "safe", "safe/div", Neq(r, Int(0)), at.Pos(), "divisor != 0")
		res = TMod(l, r)
	case token.SHL:
		x.check(st, "safe", "safe/shift", Cmp(">=", r, Int(0)), at.Pos(), "shift count >= 0")
		res = Mul(l, Pow2(r))
	case token.SHR:
		x.check(st, "safe", "safe/shift", Cmp(">=", r, Int(0)), at.Pos(), "shift count >= 0")
		res = EDiv(l, Pow2(r))
	case token.AND:
		res = x.bitAnd(l, r, at)
	case token.XOR:
		// only used on 0/1 ints (GF(2) arithmetic)
		res = App(SInt, "xor01", l, r)
		x.check(st, "safe", "safe/xor01", And(Cmp("<=", Int(0), l), Cmp("<=", l, Int(1)), Cmp("<=", Int(0), r), Cmp("<=", r, Int(1))), at.Pos(), "xor operands are 0/1")
	default:
		fail("integer operator %s not in subset at %s", op, x.pos(at.Pos()))
	}
	// sized integer results wrap
	if lo, hi, ok := intRange(rt); ok && op != token.AND && op != token.SHR && op != token.XOR && op != token.REM && op != token.QUO {
		if n, isLit := intLit(res); isLit {
			if n.Cmp(big.NewInt(lo)) >= 0 && n.Cmp(big.NewInt(hi)) <= 0 {
				return res
			}
		}
		if lo == 0 {
			res = EMod(res, Int(hi+1))
		} else {
			// signed sized ints: require no overflow (reported as obligation)
			x.check(st, "safe", "safe/overflow", And(Cmp("<=", Int(lo), res), Cmp("<=", res, Int(hi))), at.Pos(), "no overflow of sized integer")
		}
	}
	return res
}

func (x *Exec) bitAnd(l, r Term, at ast.Node) Term {
	// x & (2^k - 1)  ->  x mod 2^k ;  x & 2^k -> bit test value
	if n, ok := intLit(r); ok {
		m := new(big.Int).Add(n, big.NewInt(1))
		if n.Sign() >= 0 && isPow2(m) {
			return EMod(l, BigInt(m))
		}
		if n.Sign() > 0 && isPow2(n) {
			// (x div 2^k mod 2) * 2^k
			return Mul(EMod(EDiv(l, BigInt(n)), Int(2)), BigInt(n))
		}
	}
	if n, ok := intLit(l); ok {
		_ = n
		return x.bitAnd(r, l, at)
	}
	// symbolic mask: only "mask = 2^k - 1" shapes are supported, via masklow(x, mask+1)
	return App(SInt, "andmask", l, r)
}

func isPow2(n *big.Int) bool {
	if n.Sign() <= 0 {
		return false
	}
	return new(big.Int).And(n, new(big.Int).Sub(n, big.NewInt(1))).Sign() == 0
}

func (x *Exec) evalUnary(st *State, e *ast.UnaryExpr) Value {
	switch e.Op {
	case token.NOT:
		return sc(Not(asTerm(x.eval(st, e.X))))
	case token.SUB:
		v := asTerm(x.eval(st, e.X))
		if v.Sort == SFl {
			return sc(App(SFl, "fneg", v))
		}
		return sc(Neg(v))
	case token.ADD:
		return x.eval(st, e.X)
	case token.AND:
		// &T{...}, &local (waitgroup / mutex), &slice[i] (atomic)
		switch in := e.X.(type) {
		case *ast.CompositeLit:
			return x.evalComposite(st, in, true)
		case *ast.Ident:
			obj := x.pkg.TypesInfo.ObjectOf(in)
			return OpaqueV{T: x.eng.addrOf(x, obj), Typ: x.typeOf(e)}
		case *ast.IndexExpr:
			return addrOfElem{x.eval(st, in.X), asTerm(x.eval(st, in.Index)), in}
		}
	}
	fail("unary %s not in subset at %s", e.Op, x.pos(e.Pos()))
	return nil
}

type addrOfElem struct {
	base Value
	idx  Term
	at   *ast.IndexExpr
}

func (x *Exec) evalIndex(st *State, e *ast.IndexExpr) Value {
	bv := x.eval(st, e.X)
	idx := asTerm(x.eval(st, e.Index))
	switch b := bv.(type) {
	case SliceV:
		x.check(st, "safe", "safe/index", And(Cmp("<=", Int(0), idx), Cmp("<", idx, b.Len)), e.Pos(), exprStr(x.eng.fset, e))
		x.noteRead(st, b, idx, e)
		return x.readElem(st, b, idx)
	case ArrayV:
		x.check(st, "safe", "safe/index", And(Cmp("<=", Int(0), idx), Cmp("<", idx, Int(b.N))), e.Pos(), exprStr(x.eng.fset, e))
		return x.wrapScalar(st, Select(b.Arr, idx), b.Elem, false)
	}
	fail("index of %T not in subset at %s", bv, x.pos(e.Pos()))
	return nil
}

// noteRead records read-frame obligations (reads clauses) — see frames.go
func (x *Exec) noteRead(st *State, b SliceV, idx Term, e ast.Node) {
	x.readFrame(st, b, idx, e)
}

func (x *Exec) evalSliceExpr(st *State, e *ast.SliceExpr) Value {
	bv := x.eval(st, e.X)
	b, ok := bv.(SliceV)
	if !ok {
		fail("slicing of %T not in subset at %s", bv, x.pos(e.Pos()))
	}
	lo := Int(0)
	hi := b.Len
	if e.Low != nil {
		lo = asTerm(x.eval(st, e.Low))
	}
	if e.High != nil {
		hi = asTerm(x.eval(st, e.High))
	}
	if e.Slice3 {
		fail("3-index slice not in subset at %s", x.pos(e.Pos()))
	}
	x.check(st, "safe", "safe/slice", And(Cmp("<=", Int(0), lo), Cmp("<=", lo, hi), Cmp("<=", hi, b.Cap)), e.Pos(), exprStr(x.eng.fset, e))
	return SliceV{Ref: b.Ref, Off: Add(b.Off, lo), Len: Sub(hi, lo), Cap: Sub(b.Cap, lo), Elem: b.Elem}
}

func (x *Exec) evalSelector(st *State, e *ast.SelectorExpr) Value {
	// package-qualified identifier
	if id, ok := e.X.(*ast.Ident); ok {
		if _, isPkg := x.pkg.TypesInfo.ObjectOf(id).(*types.PkgName); isPkg {
			obj := x.pkg.TypesInfo.ObjectOf(e.Sel)
			switch o := obj.(type) {
			case *types.Const:
				v, _ := x.namedConstTerm(o)
				return v
			case *types.Var:
				return x.eng.globalVar(x, st, o)
			case *types.Func:
				return FuncV{T: x.eng.fnConst(o), Obj: o}
			}
			fail("qualified identifier %s.%s not in subset", id.Name, e.Sel.Name)
		}
	}
	sel := x.pkg.TypesInfo.Selections[e]
	if sel != nil && sel.Kind() == types.MethodVal {
		recv := x.eval(st, e.X)
		return boundMethod{recv: recv, fn: sel.Obj().(*types.Func), at: e}
	}
	bv := x.eval(st, e.X)
	switch b := bv.(type) {
	case StructV:
		v, ok := b.F[e.Sel.Name]
		if !ok {
			fail("no field %s", e.Sel.Name)
		}
		return v
	case PtrV:
		x.check(st, "safe", "safe/nil", Neq(b.Ref, Int(0)), e.Pos(), exprStr(x.eng.fset, e))
		return x.readField(st, b, e.Sel.Name)
	}
	fail("selector on %T not in subset at %s", bv, x.pos(e.Pos()))
	return nil
}

type boundMethod struct {
	recv Value
	fn   *types.Func
	at   *ast.SelectorExpr
}

func (x *Exec) readField(st *State, p PtrV, field string) Value {
	stt, ok := p.Elem.Underlying().(*types.Struct)
	if !ok {
		fail("field read through pointer to %s", p.Elem)
	}
	for i := 0; i < stt.NumFields(); i++ {
		fd := stt.Field(i)
		if fd.Name() == field {
			key := typeName(p.Elem) + "." + field
			if _, isSl := fd.Type().Underlying().(*types.Slice); isSl {
				var h Term
				if p.Pre {
					h = x.preFheap(key, SSl)
				} else {
					h = x.fheap(st, key, SSl)
				}
				return x.wrapScalar(st, Select(h, p.Ref), fd.Type(), p.Pre)
			}
			es := scalarSort(fd.Type())
			var h Term
			if p.Pre {
				h = x.preFheap(key, es)
			} else {
				h = x.fheap(st, key, es)
			}
			return x.wrapScalar(st, Select(h, p.Ref), fd.Type(), p.Pre)
		}
	}
	fail("no field %s in %s", field, p.Elem)
	return nil
}

func (x *Exec) writeField(st *State, p PtrV, field string, v Value) {
	stt := p.Elem.Underlying().(*types.Struct)
	for i := 0; i < stt.NumFields(); i++ {
		fd := stt.Field(i)
		if fd.Name() == field {
			key := typeName(p.Elem) + "." + field
			es := scalarSort(fd.Type())
			h := x.fheap(st, key, es)
			st.fheaps[key] = x.nameHeap(st, key, Store(h, p.Ref, x.toHeapTerm(v)))
			return
		}
	}
	fail("no field %s in %s", field, p.Elem)
}

func (x *Exec) allocRef(st *State) Term {
	r := st.alloc
	st.alloc = Add(st.alloc, Int(1))
	return r
}

func (x *Exec) evalComposite(st *State, e *ast.CompositeLit, addr bool) Value {
	t := x.typeOf(e)
	switch u := t.Underlying().(type) {
	case *types.Slice:
		n := int64(len(e.Elts))
		ref := x.allocRef(st)
		s := SliceV{Ref: ref, Off: Int(0), Len: Int(n), Cap: Int(n), Elem: u.Elem()}
		// zero-initialised then element stores
		x.initZero(st, s)
		for i, el := range e.Elts {
			if kv, ok := el.(*ast.KeyValueExpr); ok {
				_ = kv
				fail("keyed slice literal not in subset at %s", x.pos(e.Pos()))
			}
			var v Value
			if cl, ok := el.(*ast.CompositeLit); ok && cl.Type == nil {
				v = x.evalCompositeTyped(st, cl, u.Elem())
			} else {
				v = x.eval(st, el)
			}
			x.writeElem(st, s, Int(int64(i)), x.convertAssign(v, u.Elem()))
		}
		return s
	case *types.Struct:
		sv := x.zero(st, t).(StructV)
		for i, el := range e.Elts {
			if kv, ok := el.(*ast.KeyValueExpr); ok {
				name := kv.Key.(*ast.Ident).Name
				sv.F[name] = x.eval(st, kv.Value)
			} else {
				sv.F[u.Field(i).Name()] = x.eval(st, el)
			}
		}
		if addr {
			ref := x.allocRef(st)
			p := PtrV{Ref: ref, Elem: t}
			for name, v := range sv.F {
				x.writeField(st, p, name, v)
			}
			return p
		}
		return sv
	case *types.Array:
		av := x.zero(st, t).(ArrayV)
		for i, el := range e.Elts {
			av.Arr = Store(av.Arr, Int(int64(i)), asTerm(x.eval(st, el)))
		}
		return av
	}
	fail("composite literal of %s not in subset at %s", t, x.pos(e.Pos()))
	return nil
}

func (x *Exec) evalCompositeTyped(st *State, e *ast.CompositeLit, t types.Type) Value {
	u, ok := t.Underlying().(*types.Struct)
	if !ok {
		fail("untyped composite literal of %s", t)
	}
	sv := x.zero(st, t).(StructV)
	for i, el := range e.Elts {
		if kv, ok := el.(*ast.KeyValueExpr); ok {
			sv.F[kv.Key.(*ast.Ident).Name] = x.eval(st, kv.Value)
		} else {
			sv.F[u.Field(i).Name()] = x.eval(st, el)
		}
	}
	return sv
}

func (x *Exec) initZero(st *State, s SliceV) {
	if stt, ok := s.Elem.Underlying().(*types.Struct); ok {
		for i := 0; i < stt.NumFields(); i++ {
			fd := stt.Field(i)
			key := "st_" + typeName(s.Elem) + "." + fd.Name()
			es := scalarSort(fd.Type())
			h := x.heap(st, key, es)
			z := x.toHeapTerm(x.zero(st, fd.Type()))
			st.heaps[key] = x.nameHeap(st, key, Store(h, s.Ref, Term{"((as const " + ArrSort(es) + ") " + z.S + ")", ArrSort(es)}))
		}
		return
	}
	key, es := heapKey(s.Elem)
	h := x.heap(st, key, es)
	z := x.toHeapTerm(x.zero(st, s.Elem))
	st.heaps[key] = x.nameHeap(st, key, Store(h, s.Ref, Term{"((as const " + ArrSort(es) + ") " + z.S + ")", ArrSort(es)}))
}

// convertAssign adapts a value to a destination type (untyped constants into floats etc.).
func (x *Exec) convertAssign(v Value, t types.Type) Value {
	if s, ok := v.(Scalar); ok {
		if isFloat(t) && s.T.Sort == SInt {
			if x.mode == "U" {
				if n, ok := intLit(s.T); ok {
					return sc(x.eng.flConst(new(big.Rat).SetInt(n)))
				}
				return sc(App(SFl, "i2f", s.T))
			}
			return sc(ToReal(s.T))
		}
	}
	return v
}

func exprStr(fset *token.FileSet, e ast.Node) string {
	var b strings.Builder
	_ = printerFprint(&b, fset, e)
	return b.String()
}

// exactConst evaluates a constant expression over exact rationals from the literal texts.
func (x *Exec) exactConst(e ast.Expr) (*big.Rat, bool) {
	switch e := e.(type) {
	case *ast.ParenExpr:
		return x.exactConst(e.X)
	case *ast.BasicLit:
		if e.Kind == token.INT || e.Kind == token.FLOAT {
			r, ok := new(big.Rat).SetString(strings.ReplaceAll(e.Value, "_", ""))
			return r, ok
		}
	case *ast.UnaryExpr:
		if r, ok := x.exactConst(e.X); ok {
			switch e.Op {
			case token.SUB:
				return new(big.Rat).Neg(r), true
			case token.ADD:
				return r, true
			}
		}
	case *ast.BinaryExpr:
		a, ok1 := x.exactConst(e.X)
		b, ok2 := x.exactConst(e.Y)
		if !ok1 || !ok2 {
			return nil, false
		}
		// integer division of two integer-typed constants truncates: leave those to go/types
		if tx, ok := x.pkg.TypesInfo.Types[e.X]; ok && tx.Type != nil {
			if bt, ok := tx.Type.Underlying().(*types.Basic); ok && bt.Info()&types.IsInteger != 0 && e.Op == token.QUO {
				if ty, ok := x.pkg.TypesInfo.Types[e.Y]; ok {
					if by, ok := ty.Type.Underlying().(*types.Basic); ok && by.Info()&types.IsInteger != 0 {
						return nil, false
					}
				}
			}
		}
		switch e.Op {
		case token.ADD:
			return new(big.Rat).Add(a, b), true
		case token.SUB:
			return new(big.Rat).Sub(a, b), true
		case token.MUL:
			return new(big.Rat).Mul(a, b), true
		case token.QUO:
			if b.Sign() == 0 {
				return nil, false
			}
			return new(big.Rat).Quo(a, b), true
		}
	case *ast.Ident:
		if c, ok := x.pkg.TypesInfo.ObjectOf(e).(*types.Const); ok {
			return x.exactNamedConst(c)
		}
	case *ast.SelectorExpr:
		if c, ok := x.pkg.TypesInfo.ObjectOf(e.Sel).(*types.Const); ok {
			return x.exactNamedConst(c)
		}
	case *ast.CallExpr:
		// float64(<const>)
		if tv, ok := x.pkg.TypesInfo.Types[e.Fun]; ok && tv.IsType() && len(e.Args) == 1 {
			return x.exactConst(e.Args[0])
		}
	}
	return nil, false
}

// exactNamedConst: the exact decimal value of a named constant. Untyped constants are exact in go/types; a typed
// float constant (const AlphaT float64 = 0.0001) is rounded there, so its declaration is evaluated instead.
func (x *Exec) exactNamedConst(c *types.Const) (*big.Rat, bool) {
	bt, ok := c.Type().Underlying().(*types.Basic)
	if !ok {
		return nil, false
	}
	if bt.Info()&types.IsUntyped != 0 {
		return new(big.Rat).SetString(c.Val().ExactString())
	}
	if bt.Info()&types.IsFloat == 0 {
		return nil, false
	}
	for _, p := range x.eng.pkgs {
		if p.Types != c.Pkg() {
			continue
		}
		for _, f := range p.Syntax {
			for _, d := range f.Decls {
				gd, ok := d.(*ast.GenDecl)
				if !ok || gd.Tok != token.CONST {
					continue
				}
				for _, sp := range gd.Specs {
					vs := sp.(*ast.ValueSpec)
					for i, nm := range vs.Names {
						if p.TypesInfo.Defs[nm] == c && i < len(vs.Values) {
							y := &Exec{eng: x.eng, pkg: p}
							return y.exactConst(vs.Values[i])
						}
					}
				}
			}
		}
	}
	return nil, false
}

// namedConstTerm: value of a named constant; typed float constants with their exact declared value (R-mode reads
// decimal literals exactly everywhere, see exactConst).
func (x *Exec) namedConstTerm(o *types.Const) (Value, bool) {
	if x.mode != "U" && isFloat(o.Type()) {
		if x.pkg == nil {
			for _, p := range x.eng.pkgs {
				x.pkg = p
				break
			}
		}
		if r, ok := x.exactNamedConst(o); ok && r != nil {
			return sc(x.realConst(r)), true
		}
	}
	return x.constTerm(o.Val(), o.Type())
}
