package main

// SMT prelude, spec-function rendering, query assembly.

import (
	"fmt"
	"go/types"
	"regexp"
	"sort"
	"strings"
)

const fixedPrelude = `(declare-sort Str 0)
(declare-sort Fn 0)
(declare-sort Cx 0)
(declare-sort Fl 0)
(declare-sort Fuel 0)
(declare-fun FZ () Fuel)
(declare-fun FS (Fuel) Fuel)
(declare-datatypes ((Slice 0)) (((mk-slice (s-ref Int) (s-off Int) (s-len Int) (s-cap Int)))))
(define-fun slice-ok ((s Slice)) Bool (and (<= 0 (s-ref s)) (<= 0 (s-off s)) (<= 0 (s-len s)) (<= (s-len s) (s-cap s))))
(define-fun tdiv ((a Int) (b Int)) Int (ite (>= a 0) (ite (> b 0) (div a b) (- (div a (- b)))) (ite (> b 0) (- (div (- a) b)) (div (- a) (- b)))))
(define-fun tmod ((a Int) (b Int)) Int (- a (* b (tdiv a b))))
(define-fun xor01 ((a Int) (b Int)) Int (ite (= a b) 0 1))
(define-fun wrap64 ((x Int)) Int (- (mod (+ x 9223372036854775808) 18446744073709551616) 9223372036854775808))
(define-fun popcount8 ((b Int)) Int (+ (mod b 2) (mod (div b 2) 2) (mod (div b 4) 2) (mod (div b 8) 2) (mod (div b 16) 2) (mod (div b 32) 2) (mod (div b 64) 2) (mod (div b 128) 2)))
`

// optional prelude blocks, included when any of their trigger symbols occurs in the query
type preludeBlock struct {
	syms []string
	text string
}

func shiftTruncBlock(tag, sort, dflt string) preludeBlock {
	a := ArrSort(sort)
	return preludeBlock{[]string{"shift_" + tag, "trunc_" + tag}, fmt.Sprintf(`(declare-fun shift_%[1]s (%[2]s Int) %[2]s)
(assert (forall ((A %[2]s) (o Int) (k Int)) (! (= (select (shift_%[1]s A o) k) (select A (+ o k))) :pattern ((select (shift_%[1]s A o) k)))))
(declare-fun trunc_%[1]s (%[2]s Int) %[2]s)
(assert (forall ((A %[2]s) (n Int) (k Int)) (! (= (select (trunc_%[1]s A n) k) (ite (and (<= 0 k) (< k n)) (select A k) %[3]s)) :pattern ((select (trunc_%[1]s A n) k)))))
`, tag, a, dflt)}
}

var preludeBlocks = []preludeBlock{
	{[]string{"pow2"}, `(declare-fun pow2 (Int) Int)
(assert (= (pow2 0) 1))
(assert (forall ((k Int)) (! (=> (> k 0) (= (pow2 k) (* 2 (pow2 (- k 1))))) :pattern ((pow2 k)))))
(assert (forall ((k Int)) (! (=> (>= k 0) (>= (pow2 k) 1)) :pattern ((pow2 k)))))
(assert (forall ((a Int) (b Int)) (! (=> (and (<= 0 a) (< a b)) (< (pow2 a) (pow2 b))) :pattern ((pow2 a) (pow2 b)))))
(assert (= (pow2 1) 2))
(assert (= (pow2 2) 4))
(assert (= (pow2 3) 8))
(assert (= (pow2 4) 16))
(assert (= (pow2 5) 32))
(assert (= (pow2 6) 64))
(assert (= (pow2 7) 128))
(assert (= (pow2 8) 256))
(assert (= (pow2 9) 512))
(assert (= (pow2 10) 1024))
(assert (= (pow2 11) 2048))
(assert (= (pow2 12) 4096))
(assert (= (pow2 13) 8192))
(assert (= (pow2 14) 16384))
(assert (= (pow2 15) 32768))
(assert (= (pow2 16) 65536))
(assert (= (pow2 17) 131072))
(assert (= (pow2 18) 262144))
(assert (= (pow2 19) 524288))
(assert (= (pow2 20) 1048576))
(assert (= (pow2 21) 2097152))
(assert (= (pow2 22) 4194304))
(assert (= (pow2 23) 8388608))
(assert (= (pow2 24) 16777216))
(assert (= (pow2 25) 33554432))
(assert (= (pow2 26) 67108864))
(assert (= (pow2 27) 134217728))
(assert (= (pow2 28) 268435456))
(assert (= (pow2 29) 536870912))
(assert (= (pow2 30) 1073741824))
(assert (= (pow2 31) 2147483648))
(assert (= (pow2 32) 4294967296))
(assert (= (pow2 33) 8589934592))
(assert (= (pow2 34) 17179869184))
(assert (= (pow2 35) 34359738368))
(assert (= (pow2 36) 68719476736))
(assert (= (pow2 37) 137438953472))
(assert (= (pow2 38) 274877906944))
(assert (= (pow2 39) 549755813888))
(assert (= (pow2 40) 1099511627776))
`},
	{[]string{"umod"}, `(declare-fun umod (Int Int) Int)
(assert (forall ((a Int) (n Int)) (! (=> (and (>= a 0) (> n 0)) (and (<= 0 (umod a n)) (< (umod a n) n))) :pattern ((umod a n)))))
(assert (forall ((a Int) (n Int)) (! (=> (and (<= 0 a) (< a n)) (= (umod a n) a)) :pattern ((umod a n)))))
(assert (forall ((a Int) (c Int) (n Int)) (! (=> (and (>= c 0) (> n 0) (= a (+ c n))) (= (umod a n) (umod c n))) :pattern ((umod a n) (umod c n)))))
(assert (forall ((a Int) (c Int) (n Int)) (! (=> (and (>= c 0) (> n 0) (= a (+ c 1))) (= (umod a n) (ite (= (+ (umod c n) 1) n) 0 (+ (umod c n) 1)))) :pattern ((umod a n) (umod c n)))))
`},
	{[]string{"ix"}, `(declare-fun ix (Int Int) Int)
(assert (forall ((o Int) (i Int)) (! (= (ix o i) (+ o i)) :pattern ((ix o i)))))
`},
	shiftTruncBlock("b", SBool, "false"),
	shiftTruncBlock("i", SInt, "0"),
	shiftTruncBlock("r", SReal, "0.0"),
	{[]string{"shift_s", "trunc_s"}, `(declare-fun shift_s ((Array Int Slice) Int) (Array Int Slice))
(assert (forall ((A (Array Int Slice)) (o Int) (k Int)) (! (= (select (shift_s A o) k) (select A (+ o k))) :pattern ((select (shift_s A o) k)))))
`},
	{[]string{"shift_c", "trunc_c"}, `(declare-fun shift_c ((Array Int Cx) Int) (Array Int Cx))
(assert (forall ((A (Array Int Cx)) (o Int) (k Int)) (! (= (select (shift_c A o) k) (select A (+ o k))) :pattern ((select (shift_c A o) k)))))
`},
	{[]string{"cx", "cadd", "csub", "cmul", "cabs"}, `(declare-fun cx (Real Real) Cx)
(declare-fun cadd (Cx Cx) Cx)
(declare-fun csub (Cx Cx) Cx)
(declare-fun cmul (Cx Cx) Cx)
(declare-fun cabs (Cx) Real)
(assert (forall ((z Cx)) (! (>= (cabs z) 0.0) :pattern ((cabs z)))))
`},
	{[]string{"str-cat", "str-len"}, "(declare-fun str-cat (Str Str) Str)\n(declare-fun str-len (Str) Int)\n"},
	{[]string{"err-fmt", "err-arg0", "err-arg1", "err-arg2"}, "(declare-fun err-fmt (Int) Str)\n(declare-fun err-arg0 (Int) Str)\n(declare-fun err-arg1 (Int) Str)\n(declare-fun err-arg2 (Int) Str)\n"},
	{[]string{"stream-of"}, "(declare-fun stream-of (Int) (Array Int Int))\n(assert (forall ((s Int) (k Int)) (! (and (<= 0 (select (stream-of s) k)) (<= (select (stream-of s) k) 255)) :pattern ((select (stream-of s) k)))))\n"},
	{[]string{"fs-bytes", "fs-len"}, "(declare-fun fs-bytes (Str) (Array Int Int))\n(declare-fun fs-len (Str) Int)\n(assert (forall ((s Str) (k Int)) (! (and (<= 0 (select (fs-bytes s) k)) (<= (select (fs-bytes s) k) 255)) :pattern ((select (fs-bytes s) k)))))\n"},
	{[]string{"path-base", "path-dir", "path-join", "path-abs", "file-name"}, "(declare-fun path-base (Str) Str)\n(declare-fun path-dir (Str) Str)\n(declare-fun path-join (Str Str) Str)\n(declare-fun path-abs (Str) Str)\n(declare-fun file-name (Int) Str)\n"},
	{[]string{"andmask"}, "(declare-fun andmask (Int Int) Int)\n(assert (forall ((x Int) (k Int)) (! (=> (>= k 0) (= (andmask x (- (pow2 k) 1)) (mod x (pow2 k)))) :pattern ((andmask x (- (pow2 k) 1))))))\n"},
	{[]string{"fadd", "fsub", "fmul", "fdiv", "fneg", "i2f", "f2i", "flt", "fle", "fgt", "fge", "u_"}, `(declare-fun fadd (Fl Fl) Fl)
(declare-fun fsub (Fl Fl) Fl)
(declare-fun fmul (Fl Fl) Fl)
(declare-fun fdiv (Fl Fl) Fl)
(declare-fun fneg (Fl) Fl)
(declare-fun i2f (Int) Fl)
(declare-fun f2i (Fl) Int)
(declare-fun flt (Fl Fl) Bool)
(declare-fun fle (Fl Fl) Bool)
(declare-fun fgt (Fl Fl) Bool)
(declare-fun fge (Fl Fl) Bool)
(declare-fun u_sqrtR (Fl) Fl)
(declare-fun u_lnR (Fl) Fl)
(declare-fun u_expR (Fl) Fl)
(declare-fun u_erfcR (Fl) Fl)
(declare-fun u_erfR (Fl) Fl)
(declare-fun u_abs (Fl) Fl)
(declare-fun u_min (Fl Fl) Fl)
(declare-fun u_ceil (Fl) Fl)
(declare-fun u_floor (Fl) Fl)
(declare-fun u_powR (Fl Fl) Fl)
(declare-fun u_lgammaR (Fl) Fl)
(declare-fun u_sinR (Fl) Fl)
(declare-fun u_cosR (Fl) Fl)
(declare-fun u_cabs (Cx) Fl)
(declare-fun u_igamcR (Fl Fl) Fl)
`},
}

var tokRe = regexp.MustCompile(`[A-Za-z_][A-Za-z0-9_!\-\.]*`)

func tokenSet(s string) map[string]bool {
	m := map[string]bool{}
	for _, t := range tokRe.FindAllString(s, -1) {
		m[t] = true
	}
	return m
}

// ---------------------------------------------------------------------------
// spec functions

type renderedSpec struct {
	decl   string // declare-fun or define-fun
	axioms string
	deps   []string
	rec    bool
}

func specDeps(e Expr, acc map[string]bool) {
	switch e := e.(type) {
	case *EUn:
		specDeps(e.X, acc)
	case *EBin:
		specDeps(e.L, acc)
		specDeps(e.R, acc)
	case *ECond:
		specDeps(e.C, acc)
		specDeps(e.A, acc)
		specDeps(e.B, acc)
	case *ECall:
		acc[e.Fn] = true
		for _, a := range e.Args {
			specDeps(a, acc)
		}
	case *EIndex:
		specDeps(e.X, acc)
		specDeps(e.I, acc)
	case *EField:
		specDeps(e.X, acc)
	case *EQuant:
		specDeps(e.Body, acc)
		for _, p := range e.Pats {
			for _, pe := range p {
				specDeps(pe, acc)
			}
		}
	case *EOld:
		specDeps(e.X, acc)
	case *ESlice:
		specDeps(e.X, acc)
	}
}

func (e *Engine) specExec(mode string) *Exec {
	decls := []string{}
	return &Exec{eng: e, pkg: e.pkgs["randomness"], key: "spec", decls: &decls, declared: map[string]bool{}, oblNames: map[string]int{}, mode: mode,
		pre: &State{vars: map[types.Object]Value{}, heaps: map[string]Term{}, fheaps: map[string]Term{}, ghost: map[string]Term{}}, alloc0: Int(0)}
}

func (e *Engine) renderSpec(name, mode string) (rs *renderedSpec, err error) {
	sf := e.specs.Funcs[name]
	if sf == nil {
		return nil, fmt.Errorf("unknown spec function %s", name)
	}
	defer func() {
		if r := recover(); r != nil {
			if ve, ok := r.(vcErr); ok {
				err = fmt.Errorf("spec %s: %s", name, string(ve))
				return
			}
			panic(r)
		}
	}()
	x := e.specExec(mode)
	smtName := name
	if mode == "U" && e.specUsesReal(name) {
		smtName += "_u"
	}
	var ps []string
	var vars []Term
	env := &SpecEnv{x: x, st: x.pre, preSt: x.pre, bind: map[string]Value{}, bindPre: map[string]Value{}, bound: map[string]Value{}}
	var sorts []string
	for _, p := range sf.Params {
		s := x.specSort(p.Type)
		t := Term{"p!" + p.Name, s}
		vars = append(vars, t)
		sorts = append(sorts, s)
		ps = append(ps, fmt.Sprintf("(%s %s)", t.S, s))
		if strings.HasPrefix(p.Type, "seq<") {
			env.bound[p.Name] = SeqV{t}
		} else {
			env.bound[p.Name] = sc(t)
		}
	}
	for k, v := range sf.Fixed {
		env.bound[k] = sc(v)
	}
	ret := x.specSort(sf.Ret)
	rs = &renderedSpec{}
	deps := map[string]bool{}
	if sf.Body != nil {
		specDeps(sf.Body, deps)
	}
	for d := range deps {
		if _, ok := e.specs.Funcs[d]; ok {
			rs.deps = append(rs.deps, d)
		}
	}
	sort.Strings(rs.deps)
	if sf.Body == nil {
		rs.decl = fmt.Sprintf("(declare-fun %s (%s) %s)\n", smtName, strings.Join(sorts, " "), ret)
		rs.rec = true
		return rs, nil
	}
	rs.rec = e.specRecursive(name)
	if rs.rec {
		env.fuelSelf = e.specSCC(name)
		env.fuelSelf[name] = true
		env.fuelVar = Term{"p!ly", "Fuel"}
	}
	bv := x.evalSpec(env, sf.Body)
	body := asTerm(bv)
	if ret == SReal && body.Sort == SInt {
		body = ToReal(body)
	}
	// specialised copies are created while the body is evaluated: take them from the rendered text
	{
		have := map[string]bool{}
		for _, d := range rs.deps {
			have[d] = true
		}
		for _, tok := range strings.FieldsFunc(body.S, func(r rune) bool { return r == '(' || r == ')' || r == ' ' }) {
			tok = strings.TrimSuffix(tok, "_u")
			if _, ok := e.specs.Funcs[tok]; ok && !have[tok] && tok != name {
				have[tok] = true
				rs.deps = append(rs.deps, tok)
			}
		}
		sort.Strings(rs.deps)
	}
	if rs.rec {
		rs.decl = fmt.Sprintf("(declare-fun %s (Fuel %s) %s)\n", smtName, strings.Join(sorts, " "), ret)
		hi := App(ret, smtName, append([]Term{{"(FS p!ly)", "Fuel"}}, vars...)...)
		lo := App(ret, smtName, append([]Term{{"p!ly", "Fuel"}}, vars...)...)
		rs.axioms = fmt.Sprintf("(assert (forall ((p!ly Fuel) %s) (! (= %s %s) :pattern (%s))))\n", strings.Join(ps, " "), hi.S, body.S, hi.S) +
			fmt.Sprintf("(assert (forall ((p!ly Fuel) %s) (! (= %s %s) :pattern (%s))))\n", strings.Join(ps, " "), hi.S, lo.S, hi.S)
	} else {
		rs.decl = fmt.Sprintf("(define-fun %s (%s) %s %s)\n", smtName, strings.Join(ps, " "), ret, body.S)
	}
	return rs, nil
}

// specSCC: the recursive spec functions mutually reachable with name (including itself).
func (e *Engine) specSCC(name string) map[string]bool {
	reach := func(from string) map[string]bool {
		seen := map[string]bool{}
		var walk func(n string)
		walk = func(n string) {
			sf := e.specs.Funcs[n]
			if sf == nil || sf.Body == nil {
				return
			}
			deps := map[string]bool{}
			specDeps(sf.Body, deps)
			for d := range deps {
				if !seen[d] {
					seen[d] = true
					walk(d)
				}
			}
		}
		walk(from)
		return seen
	}
	out := map[string]bool{}
	for d := range reach(name) {
		if reach(d)[name] {
			out[d] = true
		}
	}
	return out
}

func (e *Engine) topFuel() Term {
	n := e.curFuel
	if n <= 0 {
		n = 2
	}
	t := "FZ"
	for i := 0; i < n; i++ {
		t = "(FS " + t + ")"
	}
	return Term{t, "Fuel"}
}

func (e *Engine) specRecursive(name string) bool {
	if v, ok := e.recMemo[name]; ok {
		return v
	}
	r := e.specRecursive0(name)
	e.recMemo[name] = r
	return r
}

func (e *Engine) specRecursive0(name string) bool {
	if sf := e.specs.Funcs[name]; sf != nil && sf.Base != "" {
		return e.specRecursive(sf.Base)
	}
	// reachable from itself?
	seen := map[string]bool{}
	var walk func(n string) bool
	walk = func(n string) bool {
		sf := e.specs.Funcs[n]
		if sf == nil || sf.Body == nil {
			return false
		}
		deps := map[string]bool{}
		specDeps(sf.Body, deps)
		for d := range deps {
			if d == name {
				return true
			}
			if !seen[d] {
				seen[d] = true
				if walk(d) {
					return true
				}
			}
		}
		return false
	}
	return walk(name)
}

// specPrelude renders the spec functions (and axioms) transitively needed by the given symbol set.
func (e *Engine) specPrelude(toks map[string]bool, mode string) (string, error) {
	need := map[string]bool{}
	var order []string
	var visit func(n string) error
	rendered := map[string]*renderedSpec{}
	visiting := map[string]bool{}
	visit = func(n string) error {
		if need[n] {
			return nil
		}
		need[n] = true
		visiting[n] = true
		rs, err := e.renderSpec(n, mode)
		if err != nil {
			return err
		}
		rendered[n] = rs
		for _, d := range rs.deps {
			if err := visit(d); err != nil {
				return err
			}
		}
		visiting[n] = false
		order = append(order, n)
		return nil
	}
	var names []string
	for n := range e.specs.Funcs {
		names = append(names, n)
	}
	sort.Strings(names)
	for _, n := range names {
		sn := n
		if toks[sn] || toks[sn+"_u"] {
			if err := visit(n); err != nil {
				return "", err
			}
		}
	}
	// named axioms: select to a fixpoint (an axiom is relevant when it mentions a needed function; it may need more)
	selected := map[int]bool{}
	for changed := true; changed; {
		changed = false
		for ai, ax := range e.specs.Axioms {
			if selected[ai] {
				continue
			}
			deps := map[string]bool{}
			specDeps(ax.C.E, deps)
			use := false
			for d := range deps {
				if need[d] || toks[d] {
					use = true
				}
			}
			if mode == "U" {
				// U-mode claims are about float64 values: facts about the real-valued functions (sqrt(x)^2 = x,
				// erfc(-x) = 2 - erfc(x), ranges) do not hold exactly for their float64 counterparts and are left out
				for d := range deps {
					if e.specUsesReal(d) {
						use = false
					}
				}
			}
			if !use {
				continue
			}
			selected[ai] = true
			changed = true
			for d := range deps {
				if _, ok := e.specs.Funcs[d]; ok {
					if err := visit(d); err != nil {
						return "", err
					}
				}
			}
		}
	}
	var b strings.Builder
	// recursive / uninterpreted: declarations first
	for _, n := range order {
		if rendered[n].rec {
			b.WriteString(rendered[n].decl)
		}
	}
	for _, n := range order {
		if !rendered[n].rec {
			b.WriteString(rendered[n].decl)
		}
	}
	for _, n := range order {
		b.WriteString(rendered[n].axioms)
	}
	x := e.specExec(mode)
	for ai, ax := range e.specs.Axioms {
		if !selected[ai] {
			continue
		}
		env := &SpecEnv{x: x, st: x.pre, preSt: x.pre, bind: map[string]Value{}, bindPre: map[string]Value{}, bound: map[string]Value{}}
		t, err := e.safeEval(x, env, ax.C.E)
		if err != nil {
			return "", fmt.Errorf("axiom %s: %v", ax.Name, err)
		}
		fmt.Fprintf(&b, "(assert (! %s :named ax_%s))\n", t.S, symSan.ReplaceAllString(ax.Name, "_"))
		e.usedAxioms[ax.Name] = ax.By
	}
	return b.String(), nil
}

func (e *Engine) safeEval(x *Exec, env *SpecEnv, ex Expr) (t Term, err error) {
	defer func() {
		if r := recover(); r != nil {
			if ve, ok := r.(vcErr); ok {
				err = fmt.Errorf("%s", string(ve))
				return
			}
			panic(r)
		}
	}()
	return asTerm(x.evalSpec(env, ex)), nil
}

// BuildQuery assembles the SMT-LIB text of one obligation.
var sliceStop = map[string]bool{"assert": true, "forall": true, "exists": true, "and": true, "or": true, "not": true, "ite": true, "select": true, "store": true,
	"to_real": true, "to_int": true, "div": true, "mod": true, "let": true, "as": true, "const": true, "Array": true, "Int": true, "Real": true, "Bool": true,
	"true": true, "false": true, "pattern": true, "named": true, "tdiv": true, "tmod": true, "FS": true, "FZ": true, "Fuel": true, "distinct": true,
	"s-ref": true, "s-off": true, "s-len": true, "s-cap": true, "mk-slice": true, "slice-ok": true, "Slice": true, "alloc0": true}

// sliceHyps keeps the hypotheses connected to the goal through shared symbols within `depth` steps.
// Dropping hypotheses is sound for a validity proof (it can only make the query harder to refute).
func sliceHyps(o *Obligation, depth int) []int {
	syms := map[string]bool{}
	for t := range tokenSet(o.Goal.S) {
		if !sliceStop[t] {
			syms[t] = true
		}
	}
	htoks := make([]map[string]bool, len(o.Hyps))
	for i, h := range o.Hyps {
		htoks[i] = tokenSet(h.T.S)
	}
	keep := map[int]bool{}
	for d := 0; d < depth; d++ {
		add := map[string]bool{}
		for i := range o.Hyps {
			if keep[i] {
				continue
			}
			for t := range htoks[i] {
				if syms[t] {
					keep[i] = true
					break
				}
			}
			if keep[i] {
				for t := range htoks[i] {
					if !sliceStop[t] {
						add[t] = true
					}
				}
			}
		}
		for t := range add {
			syms[t] = true
		}
	}
	var out []int
	for i := range o.Hyps {
		if keep[i] {
			out = append(out, i)
		}
	}
	return out
}

func (e *Engine) BuildQuery(o *Obligation, withModel bool) (string, error) {
	return e.BuildQuerySliced(o, nil)
}

// BuildQuerySliced: only the hypotheses with the given indexes (nil = all).
func (e *Engine) BuildQuerySliced(o *Obligation, only []int) (string, error) {
	e.curFuel = o.Fuel
	var body strings.Builder
	sel := map[int]bool{}
	for _, i := range only {
		sel[i] = true
	}
	for i, h := range o.Hyps {
		if only != nil && !sel[i] {
			continue
		}
		fmt.Fprintf(&body, "(assert (! %s :named h%d))\n", h.T.S, i)
	}
	fmt.Fprintf(&body, "(assert (not %s))\n", o.Goal.S)
	bodyS := body.String()
	toks := tokenSet(bodyS)
	specP, err := e.specPrelude(toks, o.Mode)
	if err != nil {
		return "", err
	}
	all := tokenSet(bodyS + specP)
	var b strings.Builder
	b.WriteString("(set-option :produce-models true)\n(set-logic ALL)\n")
	b.WriteString(fixedPrelude)
	// pow2 is needed by andmask
	if all["andmask"] {
		all["pow2"] = true
	}
	for _, pb := range preludeBlocks {
		use := false
		for _, s := range pb.syms {
			if all[s] {
				use = true
			}
			if strings.HasSuffix(s, "_") {
				for t := range all {
					if strings.HasPrefix(t, s) {
						use = true
					}
				}
			}
		}
		if use {
			b.WriteString(pb.text)
		}
	}
	// global declarations (strings, function constants, abstractions)
	if len(e.strList) > 0 {
		var names []string
		for i := range e.strList {
			n := fmt.Sprintf("str!%d", i)
			if all[n] {
				names = append(names, n)
			}
		}
		for _, n := range names {
			fmt.Fprintf(&b, "(declare-fun %s () Str)\n", n)
		}
		if len(names) > 1 {
			fmt.Fprintf(&b, "(assert (distinct %s))\n", strings.Join(names, " "))
		}
	}
	{
		var names []string
		for _, k := range e.fnList {
			n := e.fns[k].S
			if all[n] {
				names = append(names, n)
			}
		}
		if all["fn_nil"] {
			names = append(names, "fn_nil")
		}
		for _, n := range names {
			fmt.Fprintf(&b, "(declare-fun %s () Fn)\n", n)
		}
		if len(names) > 1 {
			fmt.Fprintf(&b, "(assert (distinct %s))\n", strings.Join(names, " "))
		}
	}
	for i := range e.flList {
		n := fmt.Sprintf("fl!%d", i)
		if all[n] {
			fmt.Fprintf(&b, "(declare-fun %s () Fl)\n", n)
		}
	}
	for _, d := range e.globalDecls {
		// include only declarations whose symbol occurs
		f := strings.Fields(d)
		if len(f) >= 2 && f[0] == "(declare-fun" && !all[f[1]] {
			continue
		}
		if len(f) >= 3 && f[0] == "(assert" && !all[strings.Trim(f[2], "()")] {
			continue
		}
		b.WriteString(d)
		b.WriteString("\n")
	}
	b.WriteString(specP)
	for _, d := range *o.Decls {
		f := strings.Fields(d)
		if len(f) >= 2 && !all[f[1]] {
			continue
		}
		b.WriteString(d)
		b.WriteString("\n")
	}
	b.WriteString(bodyS)
	b.WriteString("(check-sat)\n")
	return b.String(), nil
}
