package main

import (
	"encoding/json"
	"fmt"
	"os"
	"path/filepath"
	"strings"
)

type replayOutcome struct {
	path  string
	found bool
}

type boundedResult struct {
	name   string
	bound  string
	cases  int
	failed int
	maxErr float64
	detail string
}

func (b boundedResult) json() map[string]interface{} {
	return map[string]interface{}{"name": b.name, "label": "bounded (not counted as proved)", "bound": b.bound, "cases": b.cases, "failed": b.failed, "max_abs_err": b.maxErr, "detail": b.detail}
}

// doReplay records the failed obligation and searches for a concrete failing input against the real code
// with the property's own oracle (harness injected with `go test -overlay`).
func doReplay(e *Engine, res *checkResult, o *Obligation, seed int) replayOutcome {
	id := res.prop.ID
	name := symSan.ReplaceAllString(strings.ReplaceAll(o.Name, "/", "-"), "_")
	p := filepath.Join(homeDir(), "replays", fmt.Sprintf("%s-%s.json", id, name))
	os.MkdirAll(filepath.Dir(p), 0o755)
	rec := map[string]interface{}{
		"property":   id,
		"obligation": o.Name,
		"class":      o.Class,
		"source":     o.Src,
		"position":   o.Pos,
		"status":     o.Status,
		"solver":     o.Solver,
		"output":     firstLines(o.Output, 40),
		"rerun":      "bin/vc replay " + p,
	}
	if o.SmtPath != "" {
		if b, err := os.ReadFile(o.SmtPath); err == nil && len(b) < 1<<20 {
			rec["smt2"] = string(b)
		}
	}
	found := false
	if o.Class == "ground" || o.Solver == "syntactic" && o.Class == "frame" {
		// decided on the real source text itself (exact evaluation / syntactic sweep): the failing item is the witness
		rec["replay"] = map[string]interface{}{"found": true, "input": o.Src, "observed": o.Output, "verdict": "property clause violated by the source text itself (exact evaluation)"}
		found = true
	} else if w := searchWitness(e, res, o, seed); w != nil {
		rec["replay"] = w
		if f, ok := w["found"].(bool); ok && f {
			found = true
		}
	} else {
		rec["replay"] = map[string]interface{}{"found": false, "note": "no replay harness for this obligation's function"}
	}
	b, _ := json.MarshalIndent(rec, "", " ")
	os.WriteFile(p, b, 0o644)
	return replayOutcome{path: p, found: found}
}

func cmdReplay(args []string) int {
	if len(args) != 1 {
		usage()
	}
	b, err := os.ReadFile(args[0])
	if err != nil {
		fmt.Fprintln(os.Stderr, err)
		return 2
	}
	var rec map[string]interface{}
	if err := json.Unmarshal(b, &rec); err != nil {
		fmt.Fprintln(os.Stderr, err)
		return 2
	}
	fmt.Printf("property %v, obligation %v (%v)\n", rec["property"], rec["obligation"], rec["status"])
	rp, _ := rec["replay"].(map[string]interface{})
	if rp == nil || rp["found"] != true {
		fmt.Println("no concrete failing input was recorded (no-failing-input-found); re-checking the obligation:")
		id, _ := rec["property"].(string)
		return cmdCheck([]string{id})
	}
	out, rc := rerunWitness(rp)
	fmt.Println(out)
	return rc
}
