package main

// Property-level driver: props files, verdicts, evidence, known findings.

import (
	"encoding/json"
	"flag"
	"fmt"
	"os"
	"path/filepath"
	"sort"
	"strconv"
	"strings"
	"time"
)

type PropSpec struct {
	ID         string
	Level      string
	Blocks     []*FuncContract // pinned blocks, Name = "pkg.Func"
	Lemmas     []string
	Undecided  []string
	Assumes    []string
	Bounded    []string // names of bounded stand-ins (thorough tier), see bounded.go
	BoundedQuick []string // cheap bounded stand-ins that also run in the quick tier (budget quick)
	Sweep      bool
	AllFuncs   []string // "<pkg> <classes...>": every function of the package that has a contract
	Generate   []string // "c13 <worker> <HeaderConst>": pinned posts derived mechanically from the code's header constants
	Replay     string   // replay oracle family
	Meta       []string // meta-theorems relied upon
	CoverAny   map[string]bool // functions whose hypothesis (pinned requires) is meant to make some exits unreachable: vacuity = no exit reachable
}

func homeDir() string { return envOr("VERIF_HOME", "/verif") }

func loadProp(id string) (*PropSpec, error) {
	file := filepath.Join(homeDir(), "props", id+".spec")
	b, err := os.ReadFile(file)
	if err != nil {
		return nil, err
	}
	ps := &PropSpec{ID: id, Level: "proof"}
	var lines []rawLine
	for i, l := range strings.Split(string(b), "\n") {
		t := strings.TrimSpace(l)
		if strings.HasPrefix(t, "#") {
			continue
		}
		first := t
		rest := ""
		if k := strings.IndexAny(t, " \t"); k >= 0 {
			first, rest = t[:k], strings.TrimSpace(t[k+1:])
		}
		switch first {
		case "property":
			if rest != id {
				return nil, fmt.Errorf("%s: property %s in file for %s", file, rest, id)
			}
			continue
		case "level":
			ps.Level = rest
			continue
		case "lemma":
			ps.Lemmas = append(ps.Lemmas, rest)
			continue
		case "undecided":
			ps.Undecided = append(ps.Undecided, rest)
			continue
		case "assumes":
			ps.Assumes = append(ps.Assumes, rest)
			continue
		case "bounded":
			ps.Bounded = append(ps.Bounded, rest)
			continue
		case "bounded-quick":
			ps.BoundedQuick = append(ps.BoundedQuick, rest)
			continue
		case "meta":
			ps.Meta = append(ps.Meta, rest)
			continue
		case "replay":
			ps.Replay = rest
			continue
		case "generate":
			ps.Generate = append(ps.Generate, rest)
			continue
		case "sweep":
			ps.Sweep = true
			continue
		case "cover-any":
			if ps.CoverAny == nil {
				ps.CoverAny = map[string]bool{}
			}
			ps.CoverAny[rest] = true
			continue
		case "allfuncs":
			ps.AllFuncs = append(ps.AllFuncs, rest)
			continue
		}
		lines = append(lines, rawLine{l, file, i + 1})
	}
	blocks, err := parseContractLines(lines, "")
	if err != nil {
		return nil, err
	}
	for _, b := range blocks {
		b.Props = map[string]bool{id: true}
	}
	ps.Blocks = blocks
	return ps, nil
}

type knownFinding struct {
	Property   string `json:"property"`
	Obligation string `json:"obligation"` // obligation name (prefix match up to '~' path suffix)
	What       string `json:"what"`
	Status     string `json:"status"` // "known" | "fixed"
	Commit     string `json:"commit,omitempty"`
}

func loadKnown() []knownFinding {
	b, err := os.ReadFile(filepath.Join(homeDir(), "known_findings.json"))
	if err != nil {
		return nil
	}
	var kf struct {
		Findings []knownFinding `json:"findings"`
	}
	if json.Unmarshal(b, &kf) != nil {
		return nil
	}
	return kf.Findings
}

func baseName(n string) string {
	if i := strings.Index(n, "~"); i >= 0 {
		return n[:i]
	}
	return n
}

type checkResult struct {
	prop       *PropSpec
	obls       []*Obligation
	genErrs    []string
	funcs      []string
	wall       float64
	violations []*Obligation
	known      []string
	toolErrs   []string
	bounded    []boundedResult
	witnessCache map[string]map[string]interface{}
	boundedFindings []boundedFinding
}

func classSelected(classes []string, c string) bool {
	if len(classes) == 0 {
		return true
	}
	for _, k := range classes {
		if k == "all" || k == c {
			return true
		}
		// class groups
		switch k {
		case "safety":
			if c == "safe" || c == "panic" || c == "dec" {
				return true
			}
		case "inv":
			if c == "inv-init" || c == "inv-keep" || c == "assert" || c == "lemma-pre" {
				return true
			}
		}
	}
	return false
}

func runCheck(e *Engine, id, tier string, dir string) (*checkResult, error) {
	t0 := time.Now()
	ps, err := loadProp(id)
	if err != nil {
		return nil, err
	}
	res := &checkResult{prop: ps}
	e.curProp = id
	for _, g := range ps.Generate {
		f := strings.Fields(g)
		if len(f) == 3 && f[0] == "c13" {
			fc, err := e.c13Pinned(f[1], f[2])
			if err != nil {
				res.genErrs = append(res.genErrs, fmt.Sprintf("gen/rddetector.%s: header %s: %v", f[1], f[2], err))
				continue
			}
			ps.Blocks = append(ps.Blocks, fc)
		}
	}
	for _, af := range ps.AllFuncs {
		f := strings.Fields(af)
		var keys []string
		for k, c := range e.contracts {
			if strings.HasPrefix(k, f[0]+".") && !c.Trusted {
				keys = append(keys, k)
			}
		}
		sort.Strings(keys)
		for k, msg := range e.orphans {
			if strings.HasPrefix(k, f[0]+".") {
				res.genErrs = append(res.genErrs, fmt.Sprintf("gen/%s: %s", k, msg))
			}
		}
		for _, k := range keys {
			ps.Blocks = append(ps.Blocks, &FuncContract{Name: k, Loops: map[int]*LoopContract{}, Props: map[string]bool{id: true}, Classes: f[1:]})
		}
	}
	for _, g := range ps.Generate {
		if strings.TrimSpace(g) == "longest-run-table" {
			res.obls = append(res.obls, e.groundLongestRunTable()...)
		}
	}
	// package sweep: no function assigns the package-level tables
	if ps.Sweep {
		res.obls = append(res.obls, e.sweepGlobals()...)
	}
	// group blocks per function
	byFunc := map[string][]*FuncContract{}
	var order []string
	// blocks with `mode U` (uninterpreted float operations: bit-identity claims) are a separate verification of the function
	for _, b := range ps.Blocks {
		gk := b.Name
		if b.Mode == "U" {
			gk += "|U"
		}
		if _, ok := byFunc[gk]; !ok {
			order = append(order, gk)
		}
		byFunc[gk] = append(byFunc[gk], b)
	}
	for _, gk := range order {
		blocks := byFunc[gk]
		key := strings.TrimSuffix(gk, "|U")
		mode := "R"
		if gk != key {
			mode = "U"
		}
		var classes []string
		for _, b := range blocks {
			classes = append(classes, b.Classes...)
		}
		if _, ok := e.decls[key]; !ok {
			res.genErrs = append(res.genErrs, fmt.Sprintf("gen/%s: function no longer exists in the repository", key))
			continue
		}
		obls, err := e.VerifyFunc(key, blocks, mode)
		if err != nil {
			res.genErrs = append(res.genErrs, fmt.Sprintf("gen/%s: %v", key, err))
		}
		res.funcs = append(res.funcs, key)
		for _, o := range obls {
			if o.Prop == id || (o.Prop == "" && (classSelected(classes, o.Class) || o.Class == "cover")) {
				res.obls = append(res.obls, o)
			}
		}
	}
	// lemmas named by the property and lemmas used by the functions
	lem := map[string]bool{}
	for _, l := range ps.Lemmas {
		lem[l] = true
	}
	for l := range e.usedLemmas {
		lem[l] = true
	}
	if len(lem) > 0 {
		// transitive uses
		for changed := true; changed; {
			changed = false
			for l := range lem {
				if lm := e.specs.Lemmas[l]; lm != nil {
					for _, u := range lm.Uses {
						if c, ok := u.E.(*ECall); ok && !lem[c.Fn] {
							lem[c.Fn] = true
							changed = true
						}
					}
				}
			}
		}
		los, err := e.LemmaObligations(lem)
		if err != nil {
			res.genErrs = append(res.genErrs, fmt.Sprintf("gen/lemmas: %v", err))
		}
		res.obls = append(res.obls, los...)
		for l := range lem {
			if lm := e.specs.Lemmas[l]; lm != nil && lm.Lifted != "" && !e.liftDone[l] {
				res.genErrs = append(res.genErrs, fmt.Sprintf("gen/%s: lemma %s is used but its `lift` obligations were not generated in this check (add `lift %s(...)` to the function's block)", lm.Lifted, l, l))
			}
		}
	}
	timeout := 20
	all := false
	if tier == "thorough" {
		timeout = 60
		all = true
	}
	if v := os.Getenv("VC_TIMEOUT"); v != "" {
		timeout, _ = strconv.Atoi(v)
	}
	if os.Getenv("VC_DEBUG_BOUNDED_ONLY") != "" {
		// debugging aid (never used by the registered commands): run only the bounded stand-ins
		for _, o := range res.obls {
			o.Status, o.Solver = "discharged", "skipped(debug)"
		}
	} else if err := e.Discharge(res.obls, SolveOpts{TimeoutS: timeout, All: all, Dir: dir, Workers: 5}); err != nil {
		return nil, err
	}
	// bounded stand-ins (thorough tier): real functions against the independent reference implementations
	{
		seed, _ := strconv.Atoi(envOr("VERIF_SEED", "0"))
		list := ps.BoundedQuick
		budget := "quick"
		if tier == "thorough" {
			list = append(append([]string{}, ps.Bounded...), ps.BoundedQuick...)
			budget = "thorough"
		}
		seenB := map[string]bool{}
		for _, b := range list {
			if seenB[b] {
				continue
			}
			seenB[b] = true
			i := strings.Index(b, ":")
			if i < 0 {
				continue
			}
			pkg := b[:i]
			var checks []string
			for _, c := range strings.Split(b[i+1:], ",") {
				checks = append(checks, strings.TrimSpace(c))
			}
			resp, err := runHarness(pkg, harnessReq{Checks: checks, Seed: int64(seed), Budget: budget}, 3*time.Hour)
			br := boundedResult{name: b, bound: "harness " + pkg + " budget=" + budget + " (sizes and families listed in /verif/harness/" + pkg + "/verif_harness_test.go)"}
			if err != nil {
				br.failed = 1
				br.detail = err.Error()
				res.toolErrs = append(res.toolErrs, "bounded stand-in "+b+": "+err.Error())
			} else {
				for _, n := range resp.Cases {
					br.cases += n
				}
				for _, m := range resp.MaxErr {
					if m > br.maxErr {
						br.maxErr = m
					}
				}
				br.failed = len(resp.Findings)
				if len(resp.Findings) > 0 {
					f := resp.Findings[0]
					br.detail = fmt.Sprintf("%s: input %v observed %s expected %s", f.Check, f.Input, f.Observed, f.Expected)
					res.boundedFindings = append(res.boundedFindings, boundedFinding{pkg: pkg, f: f})
				}
			}
			res.bounded = append(res.bounded, br)
		}
	}
	res.wall = time.Since(t0).Seconds()
	return res, nil
}

type boundedFinding struct {
	pkg string
	f   harnessFinding
}

type evidence struct {
	PropertyID  string                 `json:"property_id"`
	Tier        string                 `json:"tier"`
	Seed        int                    `json:"seed"`
	Level       string                 `json:"level"`
	Coverage    map[string]interface{} `json:"coverage"`
	Assumptions []string               `json:"assumptions"`
	WallS       float64                `json:"wall_s"`
	Violations  int                    `json:"violations"`
}

func cmdCheck(args []string) int {
	fs := flag.NewFlagSet("check", flag.ExitOnError)
	tier := fs.String("tier", envOr("VERIF_TIER", "quick"), "quick|thorough")
	keep := fs.String("keep", "", "keep .smt2 files in this directory")
	verbose := fs.Bool("v", false, "list every obligation")
	var ids []string
	for len(args) > 0 && !strings.HasPrefix(args[0], "-") {
		ids = append(ids, args[0])
		args = args[1:]
	}
	fs.Parse(args)
	if len(ids) != 1 {
		usage()
	}
	id := ids[0]
	seed, _ := strconv.Atoi(envOr("VERIF_SEED", "0"))
	e, err := newEngine()
	if err != nil {
		// the repository no longer loads / contracts no longer match: that is a tool-visible breakage of the
		// verified text, reported as an error (not a property verdict)
		fmt.Fprintln(os.Stderr, "vc: cannot load repository or contracts:", err)
		writeEvidenceError(id, *tier, seed, err)
		fmt.Printf("VIOLATION property=%s replay=%s no-failing-input-found\n", id, writeLoadFailure(id, err))
		return 1
	}
	dir := *keep
	if dir == "" {
		dir, _ = os.MkdirTemp("", "vc-"+id+"-")
		defer os.RemoveAll(dir)
	}
	res, err := runCheck(e, id, *tier, dir)
	if err != nil {
		fmt.Fprintln(os.Stderr, "vc:", err)
		return 2
	}
	return report(e, res, *tier, seed, *verbose)
}

func writeLoadFailure(id string, err error) string {
	p := filepath.Join(homeDir(), "replays", id+"-load-failure.json")
	os.MkdirAll(filepath.Dir(p), 0o755)
	b, _ := json.MarshalIndent(map[string]interface{}{"property": id, "obligation": "gen/load", "status": "failed", "output": err.Error(),
		"note": "the repository or its contract files could not be loaded; no obligation could be generated"}, "", " ")
	os.WriteFile(p, b, 0o644)
	return p
}

func writeEvidenceError(id, tier string, seed int, err error) {
	ev := evidence{PropertyID: id, Tier: tier, Seed: seed, Level: "proof", WallS: 0, Violations: 1,
		Coverage: map[string]interface{}{"obligations": 1, "discharged": 0, "checker_cmd": "bin/vc check " + id, "trusted_base": []string{}, "error": err.Error()}}
	b, _ := json.MarshalIndent(ev, "", " ")
	os.MkdirAll(filepath.Join(homeDir(), "evidence"), 0o755)
	os.WriteFile(filepath.Join(homeDir(), "evidence", id+".json"), b, 0o644)
}

func report(e *Engine, res *checkResult, tier string, seed int, verbose bool) int {
	id := res.prop.ID
	known := loadKnown()
	total, ok := 0, 0
	byBackend := map[string]int{}
	var solverTotal, solverMax float64
	var samples []string
	var failed []*Obligation
	vacuous := 0
	covers := 0
	sortedObls(res.obls)
	reachable := map[string]bool{}
	for _, o := range res.obls {
		if o.Class == "cover" && o.Status != "vacuous" {
			reachable[o.Func+"|"+o.Case] = true
		}
	}
	for _, o := range res.obls {
		if o.Class == "cover" {
			covers++
			if o.Status == "vacuous" && res.prop.CoverAny[o.Func] && reachable[o.Func+"|"+o.Case] {
				// the property's hypothesis is meant to exclude this exit; some other exit of the function is reachable
				continue
			}
			if o.Status == "vacuous" {
				vacuous++
				res.toolErrs = append(res.toolErrs, "vacuity: "+o.Name+" — exit unreachable under the contract's hypotheses")
			}
			continue
		}
		total++
		if o.Status == "discharged" {
			ok++
			byBackend[o.Solver]++
			solverTotal += o.Seconds
			if o.Seconds > solverMax {
				solverMax = o.Seconds
			}
			if len(samples) < 12 && o.Solver != "syntactic" {
				samples = append(samples, fmt.Sprintf("%s: unsat by %s in %.2fs — %s", o.Name, o.Solver, o.Seconds, o.Src))
			}
			if verbose {
				fmt.Printf("  ok   %-70s %s %.2fs\n", o.Name, o.Solver, o.Seconds)
			}
		} else {
			failed = append(failed, o)
		}
	}
	// a vacuous path makes later obligations on it meaningless, but only if nothing failed before it
	exit := 0
	var knownLines []string
	nviol := 0
	for _, g := range res.genErrs {
		total++
		nm := strings.SplitN(g, ":", 2)[0]
		o := &Obligation{Name: nm, Func: strings.TrimPrefix(nm, "gen/"), Class: "gen", Status: "failed", Output: g, Src: "obligations can be generated from the current source (contract and code still correspond)"}
		failed = append(failed, o)
	}
	for _, o := range failed {
		isKnown := false
		for _, k := range known {
			if k.Status == "known" && k.Property == id && baseName(o.Name) == k.Obligation {
				isKnown = true
				knownLines = append(knownLines, fmt.Sprintf("KNOWN-FINDING: property=%s %s %s", id, k.Obligation, k.What))
			}
		}
		if isKnown {
			continue
		}
		nviol++
		rp := doReplay(e, res, o, seed)
		suffix := ""
		if !rp.found {
			suffix = " no-failing-input-found"
		}
		fmt.Printf("  FAILED %s [%s] %s\n         %s\n", o.Name, o.Pos, o.Src, firstLines(o.Output, 2))
		fmt.Printf("VIOLATION property=%s replay=%s%s\n", id, rp.path, suffix)
		exit = 1
	}
	seen := map[string]bool{}
	for _, l := range knownLines {
		if !seen[l] {
			seen[l] = true
			fmt.Println(l)
		}
	}
	if len(res.toolErrs) > 0 && exit == 0 && len(failed) == 0 {
		for _, t := range res.toolErrs {
			fmt.Println("TOOL-ERROR:", t)
		}
		exit = 3
	}
	// bounded stand-ins (thorough tier): a concrete counterexample on the real code is a violation
	var boundedOut []map[string]interface{}
	for _, b := range res.bounded {
		boundedOut = append(boundedOut, b.json())
	}
	for i, bf := range res.boundedFindings {
		p := filepath.Join(homeDir(), "replays", fmt.Sprintf("%s-bounded-%s-%d.json", id, bf.f.Check, i))
		os.MkdirAll(filepath.Dir(p), 0o755)
		rec := map[string]interface{}{"property": id, "obligation": "bounded/" + bf.pkg + ":" + bf.f.Check, "status": "failed",
			"replay": map[string]interface{}{"found": true, "package": bf.pkg, "check": bf.f.Check, "input": bf.f.Input, "observed": bf.f.Observed, "expected": bf.f.Expected, "verdict": "property violated on the real code (bounded stand-in)"},
			"rerun": "bin/vc replay " + p}
		bb, _ := json.MarshalIndent(rec, "", " ")
		os.WriteFile(p, bb, 0o644)
		fmt.Printf("VIOLATION property=%s replay=%s\n", id, p)
		nviol++
		exit = 1
	}
	// evidence
	var trusted []string
	trusted = append(trusted, "vc VC generator (typed-AST symbolic executor, /verif/cmd/vc)", "SMT solvers z3 4.8.12 / z3 5.1.0 / cvc5 1.0 (first unsat wins)")
	for _, t := range sortedSet(e.trusted) {
		trusted = append(trusted, "trusted contract: "+t)
	}
	for n, by := range e.usedAxioms {
		trusted = append(trusted, "axiom "+n+" ("+by+")")
	}
	for k, c := range e.contracts {
		if c.Trusted && e.appliedContracts[k] {
			trusted = append(trusted, "assumed contract (body not verified): "+k)
		}
	}
	sort.Strings(trusted[2:])
	var assumptions []string
	assumptions = append(assumptions, sortedSet(e.assumed)...)
	assumptions = append(assumptions, res.prop.Assumes...)
	for _, m := range res.prop.Meta {
		assumptions = append(assumptions, "meta-theorem (trusted, schedules not explored): "+m)
	}
	assumptions = append(assumptions, "integers are mathematical (no overflow check except sized-integer conversions); slice lengths bounded by 2^40",
		"float64 read as real numbers in R-mode (A-float): rounding error is not decided by the proof")
	var notes []string
	for _, f := range res.funcs {
		for _, n := range e.notes[f] {
			notes = append(notes, f+": "+n)
		}
	}
	sort.Strings(notes)
	cov := map[string]interface{}{
		"obligations":              total,
		"discharged":               ok,
		"checker_cmd":              fmt.Sprintf("bin/vc check %s --tier %s  (z3 4.8.12 | z3 5.1.0 | cvc5 1.0 raced per obligation)", id, tier),
		"trusted_base":             trusted,
		"by_backend":               byBackend,
		"solver_s_total":           round2(solverTotal),
		"solver_s_max":             round2(solverMax),
		"functions_under_contract": res.funcs,
		"vacuity":                  map[string]interface{}{"exit_covers_checked": covers, "vacuous": vacuous},
		"samples":                  samples,
		"undecided":                res.prop.Undecided,
		"notes":                    notes,
		"bounded_standins":         boundedOut,
		"known_findings_reported":  len(seen),
	}
	if len(failed) > 0 {
		var fl []string
		for _, o := range failed {
			fl = append(fl, o.Name+": "+o.Status)
		}
		cov["failed"] = fl
	}
	ev := evidence{PropertyID: id, Tier: tier, Seed: seed, Level: res.prop.Level, Coverage: cov, Assumptions: assumptions, WallS: round2(res.wall), Violations: nviol}
	b, _ := json.MarshalIndent(ev, "", " ")
	os.MkdirAll(filepath.Join(homeDir(), "evidence"), 0o755)
	if err := os.WriteFile(filepath.Join(homeDir(), "evidence", id+".json"), b, 0o644); err != nil {
		fmt.Fprintln(os.Stderr, "vc: cannot write evidence:", err)
		return 2
	}
	fmt.Printf("%s: %d/%d obligations discharged (%d functions, %.1fs)\n", id, ok, total, len(res.funcs), res.wall)
	return exit
}

func round2(f float64) float64 { return float64(int(f*100+0.5)) / 100 }

func sortedSet(m map[string]bool) []string {
	var out []string
	for k := range m {
		out = append(out, k)
	}
	sort.Strings(out)
	return out
}
