package main

// Symbolic executor: statements, loop cutting, path merging.

import (
	"fmt"
	"math/big"
	"go/ast"
	"go/token"
	"go/types"
	"strings"
)

type cont func(*State)

func (x *Exec) block(st *State, list []ast.Stmt, k cont) {
	if st.dead {
		return
	}
	if len(list) == 0 {
		k(st)
		return
	}
	x.stmt(st, list[0], func(s *State) { x.block(s, list[1:], k) })
}

func (x *Exec) stmt(st *State, s ast.Stmt, k cont) {
	if st.dead {
		return
	}
	switch s := s.(type) {
	case *ast.BlockStmt:
		x.block(st, s.List, k)
	case *ast.EmptyStmt:
		k(st)
	case *ast.ExprStmt:
		if call, ok := s.X.(*ast.CallExpr); ok {
			if id, ok := call.Fun.(*ast.Ident); ok && id.Name == "panic" {
				if _, isB := x.pkg.TypesInfo.ObjectOf(id).(*types.Builtin); isB {
					x.doPanic(st, call)
					return
				}
			}
			x.evalCall(st, call)
			k(st)
			return
		}
		fail("expression statement not in subset at %s", x.pos(s.Pos()))
	case *ast.AssignStmt:
		x.assign(st, s)
		k(st)
	case *ast.IncDecStmt:
		cur := x.eval(st, s.X)
		t := x.typeOf(s.X)
		var oneT Term
		if isFloat(t) {
			oneT = x.realConst(big.NewRat(1, 1))
		} else {
			oneT = Int(1)
		}
		op := token.ADD
		if s.Tok == token.DEC {
			op = token.SUB
		}
		nv := x.arith(st, op, asTerm(cur), oneT, t, t, s)
		x.assignTo(st, s.X, sc(nv))
		k(st)
	case *ast.DeclStmt:
		gd := s.Decl.(*ast.GenDecl)
		if gd.Tok == token.VAR {
			for _, sp := range gd.Specs {
				vs := sp.(*ast.ValueSpec)
				var vals []Value
				if len(vs.Values) == 1 && len(vs.Names) > 1 {
					v := x.eval(st, vs.Values[0])
					vals = v.(TupleV).Vs
				} else {
					for _, ve := range vs.Values {
						vals = append(vals, x.eval(st, ve))
					}
				}
				for i, n := range vs.Names {
					obj := x.pkg.TypesInfo.Defs[n]
					if obj == nil {
						continue
					}
					if i < len(vals) {
						st.vars[obj] = x.convertAssign(vals[i], obj.Type())
					} else {
						st.vars[obj] = x.zero(st, obj.Type())
						if isSyncType(obj.Type()) {
							// a freshly declared WaitGroup / Mutex starts with zero counters
							id := OpaqueV{T: x.eng.addrOf(x, obj), Typ: obj.Type()}
							x.ghostSet(st, "added", id, Int(0))
							x.ghostSet(st, "done", id, Int(0))
							x.ghostSet(st, "locked", id, TFalse)
						}
					}
				}
			}
		}
		k(st)
	case *ast.IfStmt:
		x.ifStmt(st, s, k)
	case *ast.SwitchStmt:
		x.switchStmt(st, s, k)
	case *ast.ForStmt:
		x.forStmt(st, s, k)
	case *ast.RangeStmt:
		x.rangeStmt(st, s, k)
	case *ast.ReturnStmt:
		var vals []Value
		if len(s.Results) == 0 {
			for _, r := range x.results {
				v, ok := st.vars[r]
				if !ok {
					v = x.zero(st, r.Type())
				}
				vals = append(vals, v)
			}
		} else if len(s.Results) == 1 && len(x.results) > 1 {
			vals = x.eval(st, s.Results[0]).(TupleV).Vs
		} else {
			for i, r := range s.Results {
				v := x.eval(st, r)
				if i < len(x.results) {
					v = x.convertAssign(v, x.results[i].Type())
				}
				vals = append(vals, v)
			}
		}
		x.retK(st, vals)
	case *ast.BranchStmt:
		if s.Label != nil {
			fail("labelled branch not in subset at %s", x.pos(s.Pos()))
		}
		switch s.Tok {
		case token.BREAK:
			if len(x.brk) == 0 {
				fail("break outside loop at %s", x.pos(s.Pos()))
			}
			x.brk[len(x.brk)-1](st)
		case token.CONTINUE:
			if len(x.cont) == 0 {
				fail("continue outside loop at %s", x.pos(s.Pos()))
			}
			x.cont[len(x.cont)-1](st)
		default:
			fail("%s not in subset at %s", s.Tok, x.pos(s.Pos()))
		}
	case *ast.GoStmt:
		x.goStmt(st, s)
		k(st)
	case *ast.DeferStmt:
		x.deferStmt(st, s)
		k(st)
	case *ast.SendStmt:
		ch := x.eval(st, s.Chan)
		v := x.eval(st, s.Value)
		x.ghostSend(st, ch, v)
		k(st)
	default:
		fail("statement %T not in subset at %s", s, x.pos(s.Pos()))
	}
}

func (x *Exec) doPanic(st *State, call *ast.CallExpr) {
	if x.contract != nil && x.contract.Panics != nil {
		// parameters denote entry values, ghost state (OS / read failures) is the current one
		env := x.specEnvAt(st, call.Pos(), 0)
		env.postMode = true
		c := asTerm(x.evalSpec(env, x.contract.Panics.E))
		x.oblige(st, "panic", "panic/intended", c, call.Pos(), "explicit panic only under: "+x.contract.Panics.Src)
		return
	}
	x.oblige(st, "safe", "safe/panic", TFalse, call.Pos(), "explicit panic unreachable under requires")
}

// ---------------------------------------------------------------------------
// Assignment

func (x *Exec) assign(st *State, s *ast.AssignStmt) {
	if s.Tok != token.ASSIGN && s.Tok != token.DEFINE {
		// op=
		var op token.Token
		switch s.Tok {
		case token.ADD_ASSIGN:
			op = token.ADD
		case token.SUB_ASSIGN:
			op = token.SUB
		case token.MUL_ASSIGN:
			op = token.MUL
		case token.QUO_ASSIGN:
			op = token.QUO
		case token.REM_ASSIGN:
			op = token.REM
		case token.SHL_ASSIGN:
			op = token.SHL
		case token.SHR_ASSIGN:
			op = token.SHR
		case token.XOR_ASSIGN:
			op = token.XOR
		case token.AND_ASSIGN:
			op = token.AND
		default:
			fail("assignment operator %s not in subset at %s", s.Tok, x.pos(s.Pos()))
		}
		cur := x.eval(st, s.Lhs[0])
		r := x.eval(st, s.Rhs[0])
		t := x.typeOf(s.Lhs[0])
		r = x.convertAssign(r, t)
		nv := x.arith(st, op, asTerm(cur), asTerm(r), t, t, s)
		if x.wraps(s.Lhs[0]) {
			nv = App(SInt, "wrap64", nv)
		}
		x.assignTo(st, s.Lhs[0], sc(nv))
		return
	}
	var vals []Value
	if len(s.Rhs) == 1 && len(s.Lhs) > 1 {
		v := x.eval(st, s.Rhs[0])
		tv, ok := v.(TupleV)
		if !ok {
			fail("multi-value assignment from %T at %s", v, x.pos(s.Pos()))
		}
		vals = tv.Vs
	} else {
		for _, r := range s.Rhs {
			vals = append(vals, x.eval(st, r))
		}
	}
	// simultaneous assignment: evaluate index operands of the LHS before any store
	type target struct {
		e    ast.Expr
		base Value
		idx  Term
		kind int
	}
	var tgts []target
	for _, l := range s.Lhs {
		l = unparen(l)
		switch le := l.(type) {
		case *ast.IndexExpr:
			if len(s.Lhs) > 1 {
				b := x.eval(st, le.X)
				i := asTerm(x.eval(st, le.Index))
				tgts = append(tgts, target{l, b, i, 1})
				continue
			}
		}
		tgts = append(tgts, target{e: l})
	}
	for i, tg := range tgts {
		if tg.kind == 1 {
			x.storeIndex(st, tg.e.(*ast.IndexExpr), tg.base, tg.idx, vals[i])
			continue
		}
		x.assignTo(st, tg.e, vals[i])
	}
}

func unparen(e ast.Expr) ast.Expr {
	for {
		p, ok := e.(*ast.ParenExpr)
		if !ok {
			return e
		}
		e = p.X
	}
}

func (x *Exec) wraps(e ast.Expr) bool {
	id, ok := e.(*ast.Ident)
	if !ok || x.contract == nil {
		return false
	}
	for _, w := range x.contract.Modifies {
		if w == "wraps:"+id.Name {
			return true
		}
	}
	return false
}

func (x *Exec) assignTo(st *State, lhs ast.Expr, v Value) {
	lhs = unparen(lhs)
	switch l := lhs.(type) {
	case *ast.Ident:
		if l.Name == "_" {
			return
		}
		obj := x.pkg.TypesInfo.ObjectOf(l)
		if obj == nil {
			fail("assignment to unresolved %s", l.Name)
		}
		if vv, isVar := obj.(*types.Var); isVar && vv.Pkg() != nil && vv.Parent() == vv.Pkg().Scope() {
			x.eng.globalStore(x, st, vv, v, l)
			return
		}
		st.vars[obj] = x.convertAssign(v, obj.Type())
	case *ast.IndexExpr:
		b := x.eval(st, l.X)
		i := asTerm(x.eval(st, l.Index))
		x.storeIndex(st, l, b, i, v)
	case *ast.SelectorExpr:
		b := x.eval(st, l.X)
		switch bb := b.(type) {
		case PtrV:
			x.check(st, "safe", "safe/nil", Neq(bb.Ref, Int(0)), l.Pos(), exprStr(x.eng.fset, l))
			x.check(st, "frame", "frame/mod", Cmp(">=", bb.Ref, x.alloc0), l.Pos(), "store through pointer only to memory allocated by this call")
			x.writeField(st, bb, l.Sel.Name, v)
		case StructV:
			// struct held by value in a local
			id, ok := unparen(l.X).(*ast.Ident)
			if !ok {
				fail("nested struct field store not in subset at %s", x.pos(l.Pos()))
			}
			nf := map[string]Value{}
			for k2, v2 := range bb.F {
				nf[k2] = v2
			}
			nf[l.Sel.Name] = v
			st.vars[x.pkg.TypesInfo.ObjectOf(id)] = StructV{Typ: bb.Typ, F: nf}
		default:
			fail("field store on %T not in subset at %s", b, x.pos(l.Pos()))
		}
	default:
		fail("assignment target %T not in subset at %s", lhs, x.pos(lhs.Pos()))
	}
}

func (x *Exec) storeIndex(st *State, l *ast.IndexExpr, b Value, i Term, v Value) {
	switch bb := b.(type) {
	case SliceV:
		x.check(st, "safe", "safe/index", And(Cmp("<=", Int(0), i), Cmp("<", i, bb.Len)), l.Pos(), exprStr(x.eng.fset, l))
		key, _ := heapKey(bb.Elem)
		x.check(st, "frame", "frame/mod", x.frameOK(st, bb.Ref, key), l.Pos(), "store to "+exprStr(x.eng.fset, l)+" is within the modifies clause or to fresh memory")
		x.writeElem(st, bb, i, x.convertAssign(v, bb.Elem))
	case ArrayV:
		x.check(st, "safe", "safe/index", And(Cmp("<=", Int(0), i), Cmp("<", i, Int(bb.N))), l.Pos(), exprStr(x.eng.fset, l))
		id, ok := unparen(l.X).(*ast.Ident)
		if !ok {
			fail("array element store through %T not in subset", l.X)
		}
		vv := x.convertAssign(v, bb.Elem)
		st.vars[x.pkg.TypesInfo.ObjectOf(id)] = ArrayV{Arr: Store(bb.Arr, i, asTerm(vv)), N: bb.N, Elem: bb.Elem}
	default:
		fail("indexed store on %T not in subset at %s", b, x.pos(l.Pos()))
	}
}

// ---------------------------------------------------------------------------
// if / switch with path merging

func (x *Exec) ifStmt(st *State, s *ast.IfStmt, k cont) {
	if s.Init != nil {
		x.stmt(st, s.Init, func(s2 *State) {
			cp := *s
			cp.Init = nil
			x.ifStmt(s2, &cp, k)
		})
		return
	}
	c := asTerm(x.eval(st, s.Cond))
	var elseList []ast.Stmt
	if s.Else != nil {
		elseList = []ast.Stmt{s.Else}
	}
	x.branch(st, c, s.Body.List, elseList, k)
}

func (x *Exec) branch(st *State, c Term, thenL, elseL []ast.Stmt, k cont) {
	if c.S == "true" {
		x.block(st, thenL, k)
		return
	}
	if c.S == "false" {
		x.block(st, elseL, k)
		return
	}
	base := len(st.pc)
	var ends1, ends2 []*State
	s1 := st.clone()
	s1.assume(c, "branch")
	x.block(s1, thenL, func(s *State) { ends1 = append(ends1, s) })
	s2 := st.clone()
	s2.assume(Not(c), "branch")
	x.block(s2, elseL, func(s *State) { ends2 = append(ends2, s) })
	if len(ends1) == 1 && len(ends2) == 1 {
		if m := x.merge(st, base, c, ends1[0], ends2[0]); m != nil {
			k(m)
			return
		}
	}
	for _, e := range ends1 {
		k(e)
	}
	for _, e := range ends2 {
		k(e)
	}
}

func mergeTerm(c, a, b Term) Term { return Ite(c, a, b) }

func (x *Exec) mergeValue(c Term, a, b Value) (Value, bool) {
	switch av := a.(type) {
	case Scalar:
		bv, ok := b.(Scalar)
		if !ok || av.T.Sort != bv.T.Sort {
			return nil, false
		}
		return sc(mergeTerm(c, av.T, bv.T)), true
	case SliceV:
		bv, ok := b.(SliceV)
		if !ok {
			return nil, false
		}
		return SliceV{Ref: mergeTerm(c, av.Ref, bv.Ref), Off: mergeTerm(c, av.Off, bv.Off), Len: mergeTerm(c, av.Len, bv.Len), Cap: mergeTerm(c, av.Cap, bv.Cap), Elem: av.Elem}, true
	case ArrayV:
		bv, ok := b.(ArrayV)
		if !ok {
			return nil, false
		}
		return ArrayV{Arr: mergeTerm(c, av.Arr, bv.Arr), N: av.N, Elem: av.Elem}, true
	case PtrV:
		bv, ok := b.(PtrV)
		if !ok {
			return nil, false
		}
		return PtrV{Ref: mergeTerm(c, av.Ref, bv.Ref), Elem: av.Elem}, true
	case OpaqueV:
		bv, ok := b.(OpaqueV)
		if !ok {
			return nil, false
		}
		return OpaqueV{T: mergeTerm(c, av.T, bv.T), Typ: av.Typ}, true
	case StructV:
		bv, ok := b.(StructV)
		if !ok {
			return nil, false
		}
		nf := map[string]Value{}
		for name, fa := range av.F {
			m, ok := x.mergeValue(c, fa, bv.F[name])
			if !ok {
				return nil, false
			}
			nf[name] = m
		}
		return StructV{Typ: av.Typ, F: nf}, true
	case FuncV:
		bv, ok := b.(FuncV)
		if ok && av.T.S == bv.T.S {
			return av, true
		}
		return nil, false
	}
	return nil, false
}

func (x *Exec) merge(st *State, base int, c Term, a, b *State) *State {
	if len(a.defers) != len(b.defers) {
		return nil
	}
	m := st.clone()
	m.pc = m.pc[:base]
	// variables: union of keys; a variable defined in only one branch is block-local and dropped
	for obj, va := range a.vars {
		vb, ok := b.vars[obj]
		if !ok {
			continue
		}
		mv, ok := x.mergeValue(c, va, vb)
		if !ok {
			return nil
		}
		m.vars[obj] = mv
	}
	// merged heaps get a name (keeps `ite` out of quantifier patterns and terms small)
	nameHeap := func(prefix, key string, t Term) Term {
		if !strings.HasPrefix(t.S, "(ite ") {
			return t
		}
		n := x.fresh(prefix+key, t.Sort)
		m.pc = append(m.pc, Hyp{Eq(n, t), "merge:" + key})
		return n
	}
	for key, ha := range a.heaps {
		hb, ok := b.heaps[key]
		if !ok {
			hb = x.heapDefault(key, ha)
		}
		m.heaps[key] = nameHeap("H_", key, mergeTerm(c, ha, hb))
	}
	for key, hb := range b.heaps {
		if _, ok := a.heaps[key]; !ok {
			m.heaps[key] = nameHeap("H_", key, mergeTerm(c, x.heapDefault(key, hb), hb))
		}
	}
	for key, ha := range a.fheaps {
		hb, ok := b.fheaps[key]
		if !ok {
			hb = Term{"F_" + symSan.ReplaceAllString(key, "_") + "_0", ha.Sort}
		}
		m.fheaps[key] = mergeTerm(c, ha, hb)
	}
	for key, hb := range b.fheaps {
		if _, ok := a.fheaps[key]; !ok {
			m.fheaps[key] = mergeTerm(c, Term{"F_" + symSan.ReplaceAllString(key, "_") + "_0", hb.Sort}, hb)
		}
	}
	for key, ga := range a.ghost {
		gb, ok := b.ghost[key]
		if !ok {
			gb = x.ghostDefault(key, ga.Sort)
		}
		m.ghost[key] = mergeTerm(c, ga, gb)
	}
	for key, gb := range b.ghost {
		if _, ok := a.ghost[key]; !ok {
			m.ghost[key] = mergeTerm(c, x.ghostDefault(key, gb.Sort), gb)
		}
	}
	m.alloc = mergeTerm(c, a.alloc, b.alloc)
	// path facts learned inside the branches, guarded (the first extra hyp of each is the branch condition itself)
	for _, h := range a.pc[base+1:] {
		m.assume(Implies(c, h.T), h.Label)
	}
	for _, h := range b.pc[base+1:] {
		m.assume(Implies(Not(c), h.T), h.Label)
	}
	m.defers = a.defers
	return m
}

func (x *Exec) heapDefault(key string, like Term) Term {
	return Term{"H_" + key + "_0", like.Sort}
}

func (x *Exec) switchStmt(st *State, s *ast.SwitchStmt, k cont) {
	if s.Init != nil {
		fail("switch init not in subset at %s", x.pos(s.Pos()))
	}
	var tag Value
	if s.Tag != nil {
		tag = x.eval(st, s.Tag)
	}
	var clauses []*ast.CaseClause
	var def *ast.CaseClause
	for _, c := range s.Body.List {
		cc := c.(*ast.CaseClause)
		if cc.List == nil {
			def = cc
		} else {
			clauses = append(clauses, cc)
		}
	}
	// break inside a switch leaves the switch
	x.brk = append(x.brk, func(s2 *State) { k(s2) })
	defer func() { x.brk = x.brk[:len(x.brk)-1] }()
	var rec func(st *State, i int, k cont)
	rec = func(st *State, i int, k cont) {
		if i == len(clauses) {
			if def != nil {
				x.block(st, def.Body, k)
			} else {
				k(st)
			}
			return
		}
		cc := clauses[i]
		var conds []Term
		for _, e := range cc.List {
			if tag != nil {
				conds = append(conds, Eq(asTerm(tag), asTerm(x.convertLike(x.eval(st, e), tag))))
			} else {
				conds = append(conds, asTerm(x.eval(st, e)))
			}
		}
		c := Or(conds...)
		x.branchK(st, c, func(s2 *State, k2 cont) { x.block(s2, cc.Body, k2) }, func(s2 *State, k2 cont) { rec(s2, i+1, k2) }, k)
	}
	rec(st, 0, k)
}

func (x *Exec) convertLike(v Value, like Value) Value {
	if a, ok := v.(Scalar); ok {
		if b, ok := like.(Scalar); ok && a.T.Sort == SInt && b.T.Sort == SReal {
			return sc(ToReal(a.T))
		}
	}
	return v
}

// branchK is branch() with arbitrary sub-executions.
func (x *Exec) branchK(st *State, c Term, thenF, elseF func(*State, cont), k cont) {
	if c.S == "true" {
		thenF(st, k)
		return
	}
	if c.S == "false" {
		elseF(st, k)
		return
	}
	base := len(st.pc)
	var ends1, ends2 []*State
	s1 := st.clone()
	s1.assume(c, "branch")
	thenF(s1, func(s *State) { ends1 = append(ends1, s) })
	s2 := st.clone()
	s2.assume(Not(c), "branch")
	elseF(s2, func(s *State) { ends2 = append(ends2, s) })
	if len(ends1) == 1 && len(ends2) == 1 {
		if m := x.merge(st, base, c, ends1[0], ends2[0]); m != nil {
			k(m)
			return
		}
	}
	for _, e := range ends1 {
		k(e)
	}
	for _, e := range ends2 {
		k(e)
	}
}

// ---------------------------------------------------------------------------
// Loops

type modSet struct {
	vars    map[types.Object]bool
	heaps   map[string][]ast.Expr // heap key -> store base expressions (nil entry => coarse)
	coarse  map[string]bool
	fheaps  map[string]bool
	ghost   bool
	allocs  bool
}

func (x *Exec) analyseMods(nodes ...ast.Node) *modSet {
	ms := &modSet{vars: map[types.Object]bool{}, heaps: map[string][]ast.Expr{}, coarse: map[string]bool{}, fheaps: map[string]bool{}}
	markStore := func(lhs ast.Expr) {
		lhs = unparen(lhs)
		switch l := lhs.(type) {
		case *ast.Ident:
			if obj := x.pkg.TypesInfo.ObjectOf(l); obj != nil {
				ms.vars[obj] = true
			}
		case *ast.IndexExpr:
			bt := x.typeOf(l.X)
			switch u := bt.Underlying().(type) {
			case *types.Slice:
				for _, key := range heapKeysOf(u.Elem()) {
					ms.heaps[key] = append(ms.heaps[key], unparen(l.X))
				}
			case *types.Array:
				if id, ok := unparen(l.X).(*ast.Ident); ok {
					ms.vars[x.pkg.TypesInfo.ObjectOf(id)] = true
				}
			}
		case *ast.SelectorExpr:
			bt := x.typeOf(l.X)
			if p, ok := bt.Underlying().(*types.Pointer); ok {
				ms.fheaps[typeName(p.Elem())+"."+l.Sel.Name] = true
			} else if id, ok := unparen(l.X).(*ast.Ident); ok {
				ms.vars[x.pkg.TypesInfo.ObjectOf(id)] = true
			}
		}
	}
	for _, n := range nodes {
		if n == nil {
			continue
		}
		ast.Inspect(n, func(n ast.Node) bool {
			switch s := n.(type) {
			case *ast.AssignStmt:
				for _, l := range s.Lhs {
					markStore(l)
				}
			case *ast.IncDecStmt:
				markStore(s.X)
			case *ast.RangeStmt:
				if s.Key != nil {
					markStore(s.Key)
				}
				if s.Value != nil {
					markStore(s.Value)
				}
			case *ast.DeclStmt:
				if gd, ok := s.Decl.(*ast.GenDecl); ok {
					for _, sp := range gd.Specs {
						if vs, ok := sp.(*ast.ValueSpec); ok {
							for _, nm := range vs.Names {
								if obj := x.pkg.TypesInfo.Defs[nm]; obj != nil {
									ms.vars[obj] = true
								}
							}
						}
					}
				}
			case *ast.SendStmt, *ast.GoStmt, *ast.DeferStmt:
				ms.ghost = true
			case *ast.CompositeLit:
				ms.allocs = true
				if t, ok := x.pkg.TypesInfo.Types[s]; ok {
					if sl, ok := t.Type.Underlying().(*types.Slice); ok {
						for _, key := range heapKeysOf(sl.Elem()) {
							ms.coarse[key] = true
						}
					}
					if _, ok := t.Type.Underlying().(*types.Struct); ok {
						// &T{} writes field heaps
						stt := t.Type.Underlying().(*types.Struct)
						for i := 0; i < stt.NumFields(); i++ {
							ms.fheaps[typeName(t.Type)+"."+stt.Field(i).Name()] = true
						}
					}
				}
			case *ast.CallExpr:
				x.callMods(s, ms)
			}
			return true
		})
	}
	return ms
}

func heapKeysOf(elem types.Type) []string {
	if stt, ok := elem.Underlying().(*types.Struct); ok {
		var out []string
		for i := 0; i < stt.NumFields(); i++ {
			out = append(out, "st_"+typeName(elem)+"."+stt.Field(i).Name())
		}
		return out
	}
	k, _ := heapKey(elem)
	return []string{k}
}

func heapSortOfKey(x *Exec, st *State, key string) string {
	if h, ok := st.heaps[key]; ok {
		return elemOfArr(elemOfArr(h.Sort))
	}
	return ""
}

// havoc replaces everything the loop may modify by fresh symbols; returns the new state.
func (x *Exec) havoc(st *State, ms *modSet, tag string) *State {
	n := st.clone()
	for obj := range ms.vars {
		old, ok := n.vars[obj]
		if !ok {
			continue // declared inside the loop
		}
		n.vars[obj] = x.freshLike(n, old, obj.Name())
	}
	keys := map[string]bool{}
	for k2 := range ms.heaps {
		keys[k2] = true
	}
	for k2 := range ms.coarse {
		keys[k2] = true
	}
	for key := range keys {
		old, ok := st.heaps[key]
		if !ok {
			// heap never touched before the loop: materialise its entry symbol
			es := x.eng.heapElemSort[key]
			if es == "" {
				fail("unknown element sort for heap %s", key)
			}
			old = x.heap(st, key, es)
			n.heaps[key] = old
		}
		nh := x.fresh("H_"+key, old.Sort)
		n.heaps[key] = nh
		r := Term{"fr!r", SInt}
		var cond Term
		precise := !ms.coarse[key]
		var refs []Term
		if precise {
			for _, be := range ms.heaps[key] {
				id, ok := be.(*ast.Ident)
				if !ok {
					precise = false
					break
				}
				obj := x.pkg.TypesInfo.ObjectOf(id)
				if ms.vars[obj] {
					precise = false
					break
				}
				sv, ok := st.vars[obj].(SliceV)
				if !ok {
					precise = false
					break
				}
				refs = append(refs, sv.Ref)
			}
		}
		if precise {
			var cs []Term
			seen := map[string]bool{}
			for _, rf := range refs {
				if !seen[rf.S] {
					seen[rf.S] = true
					cs = append(cs, Neq(r, rf))
				}
			}
			cond = And(cs...)
		} else {
			// coarse: the loop may write any fresh or modifiable array of this heap; memory the function may
			// not write (parameters outside the modifies clause, global tables) is preserved
			x.preserveFrame(n, st, key, old, nh)
			continue
		}
		n.assume(Forall([]Term{r}, Implies(cond, Eq(Select(nh, r), Select(old, r))), []Term{Select(nh, r)}), "loop-frame:"+key)
	}
	for key := range ms.fheaps {
		old, ok := st.fheaps[key]
		if !ok {
			continue
		}
		nh := x.fresh("F_"+key, old.Sort)
		n.fheaps[key] = nh
		r := Term{"fr!r", SInt}
		n.assume(Forall([]Term{r}, Implies(Cmp("<", r, st.alloc), Eq(Select(nh, r), Select(old, r))), []Term{Select(nh, r)}), "loop-frame:"+key)
	}
	// allocation counter is monotone
	na := x.fresh("alloc", SInt)
	n.assume(Cmp(">=", na, st.alloc), "alloc-monotone")
	n.alloc = na
	if ms.ghost {
		for key, g := range st.ghost {
			if strings.HasPrefix(key, "$") {
				continue
			}
			n.ghost[key] = x.fresh("G_"+key, g.Sort)
		}
	}
	return n
}

func (x *Exec) freshLike(st *State, old Value, name string) Value {
	switch o := old.(type) {
	case Scalar:
		return sc(x.fresh(name, o.T.Sort))
	case SliceV:
		s := SliceV{Ref: x.fresh(name+"_ref", SInt), Off: x.fresh(name+"_off", SInt), Len: x.fresh(name+"_len", SInt), Cap: x.fresh(name+"_cap", SInt), Elem: o.Elem}
		st.assume(And(Cmp("<=", Int(0), s.Off), Cmp("<=", Int(0), s.Len), Cmp("<=", s.Len, s.Cap), Cmp("<=", Int(0), s.Ref)), "type-inv")
		return s
	case ArrayV:
		return ArrayV{Arr: x.fresh(name, o.Arr.Sort), N: o.N, Elem: o.Elem}
	case PtrV:
		return PtrV{Ref: x.fresh(name, SInt), Elem: o.Elem}
	case OpaqueV:
		return OpaqueV{T: x.fresh(name, SInt), Typ: o.Typ}
	case StructV:
		nf := map[string]Value{}
		for k2, v := range o.F {
			nf[k2] = x.freshLike(st, v, name+"_"+k2)
		}
		return StructV{Typ: o.Typ, F: nf}
	case FuncV:
		return FuncV{T: x.fresh(name, SFn)}
	}
	fail("cannot havoc value %T (%s)", old, name)
	return nil
}

type loopSpec struct {
	ord      int
	node     ast.Stmt
	mods     *modSet
	cond     func(*State) Term        // nil => true
	pre      func(*State)             // executed at the start of each iteration (range value binding)
	body     []ast.Stmt
	post     func(*State)             // post statement (i++), hidden index increment
	autoDec  func(*State) (Term, bool) // synthesised termination measure
	bodyPos  token.Pos
	hidden   string
	bodyEnd  token.Pos
	hiddenBound *Term
	syncKey  func(*State) // range loops: the key variable equals the hidden index wherever invariants are evaluated
}

func (ls *loopSpec) endPos() token.Pos {
	if ls.bodyEnd.IsValid() {
		return ls.bodyEnd
	}
	return ls.bodyPos
}

func (x *Exec) loopContract(ord int) *LoopContract {
	if x.contract == nil {
		return nil
	}
	return x.contract.Loops[ord]
}

// unrollLoop executes a loop whose guard folds to a literal at every iteration (literal bounds under a cases clause).
func (x *Exec) unrollLoop(st *State, ls *loopSpec, k cont, depth int) {
	if depth > 16 {
		fail("loop %d: unroll limit exceeded", ls.ord)
	}
	c := TTrue
	if ls.cond != nil {
		c = ls.cond(st)
	}
	switch c.S {
	case "false":
		k(st)
		return
	case "true":
	default:
		fail("loop %d: cannot unroll, guard is not a literal (%s)", ls.ord, c.S)
	}
	next := func(s *State) {
		if s.dead {
			return
		}
		if ls.post != nil {
			ls.post(s)
		}
		x.unrollLoop(s, ls, k, depth+1)
	}
	x.brk = append(x.brk, k)
	x.cont = append(x.cont, next)
	nb, nc := len(x.brk), len(x.cont)
	if ls.pre != nil {
		ls.pre(st)
	}
	x.anchor(st, fmt.Sprintf("in loop %d", ls.ord), ls.bodyPos, ls.ord)
	x.block(st, ls.body, func(s *State) {
		x.anchor(s, fmt.Sprintf("end loop %d", ls.ord), ls.endPos(), ls.ord)
		next(s)
	})
	x.brk = x.brk[:nb-1]
	x.cont = x.cont[:nc-1]
}

func (x *Exec) runLoop(st *State, ls *loopSpec, k cont) {
	lc := x.loopContract(ls.ord)
	if lc != nil && lc.Unroll {
		x.unrollLoop(st, ls, k, 0)
		return
	}
	pos := ls.node.Pos()
	x.anchor(st, fmt.Sprintf("before loop %d", ls.ord), ls.node.Pos(), ls.ord)

	// (1) invariants hold on entry
	if lc != nil {
		for i, inv := range lc.Invariants {
			if !x.eng.tagActive(inv.Tag) {
				continue
			}
			env := x.specEnvAt(st, ls.bodyPos, ls.ord)
			g := asTerm(x.evalSpec(env, inv.E))
			for j, cj := range splitConj(g) {
				x.check(st, "inv-init", fmt.Sprintf("inv/%d/init#%d.%d", ls.ord, i+1, j+1), cj, pos, inv.Src)
			}
		}
	}
	// (2) cut
	h := x.havoc(st, ls.mods, fmt.Sprintf("loop%d", ls.ord))
	if ls.hidden != "" {
		hi := x.fresh("idx", SInt)
		h.ghost[ls.hidden] = hi
		h.assume(Cmp(">=", hi, Int(0)), "hidden-index")
		if ls.hiddenBound != nil {
			h.assume(Cmp("<=", hi, *ls.hiddenBound), "hidden-index")
		}
		if ls.syncKey != nil {
			ls.syncKey(h)
		}
	}
	if lc != nil {
		for _, inv := range lc.Invariants {
			if !x.eng.tagActive(inv.Tag) {
				continue
			}
			env := x.specEnvAt(h, ls.bodyPos, ls.ord)
			h.assume(asTerm(x.evalSpec(env, inv.E)), fmt.Sprintf("inv/%d", ls.ord))
		}
	}
	var c Term = TTrue
	hc := h.clone()
	if ls.cond != nil {
		c = ls.cond(hc)
	}
	// (3) exit path
	if ls.cond != nil {
		ex := hc.clone()
		ex.assume(Not(c), "loop-exit")
		x.anchor(ex, fmt.Sprintf("after loop %d", ls.ord), ls.bodyPos, ls.ord)
		if !ex.dead {
			k(ex)
		}
	}
	// (4) body path
	b := hc.clone()
	b.assume(c, "loop-guard")
	if b.dead {
		return
	}
	var dec0 Term
	var decSrc string
	hasDec := false
	if lc != nil && lc.Decreases != nil {
		env := x.specEnvAt(b, ls.bodyPos, ls.ord)
		dec0 = asTerm(x.evalSpec(env, lc.Decreases.E))
		decSrc = lc.Decreases.Src
		hasDec = true
	} else if ls.autoDec != nil {
		if d, ok := ls.autoDec(b); ok {
			dec0, hasDec, decSrc = d, true, "synthesised: bound - index"
		}
	}
	if !hasDec {
		x.eng.note(x.key, fmt.Sprintf("loop %d: termination not checked (no decreases clause)", ls.ord))
	}
	backEdge := func(s *State) {
		if s.dead {
			return
		}
		x.anchor(s, fmt.Sprintf("end loop %d", ls.ord), ls.endPos(), ls.ord)
		if ls.post != nil {
			ls.post(s)
		}
		if ls.syncKey != nil {
			ls.syncKey(s)
		}
		if lc != nil {
			for i, inv := range lc.Invariants {
				if !x.eng.tagActive(inv.Tag) {
					continue
				}
				env := x.specEnvAt(s, ls.bodyPos, ls.ord)
				g := asTerm(x.evalSpec(env, inv.E))
				for j, cj := range splitConj(g) {
					x.check(s, "inv-keep", fmt.Sprintf("inv/%d/keep#%d.%d", ls.ord, i+1, j+1), cj, pos, inv.Src)
				}
			}
		}
		if hasDec {
			var dec1 Term
			if lc != nil && lc.Decreases != nil {
				env := x.specEnvAt(s, ls.bodyPos, ls.ord)
				dec1 = asTerm(x.evalSpec(env, lc.Decreases.E))
			} else {
				dec1, _ = ls.autoDec(s)
			}
			x.check(s, "dec", fmt.Sprintf("dec/%d", ls.ord), And(Cmp(">=", dec0, Int(0)), Cmp("<", dec1, dec0)), pos, decSrc)
		}
	}
	x.brk = append(x.brk, func(s *State) {
		saved := x.ordStack
		if n := len(saved); n > 0 && saved[n-1] == ls.ord {
			x.ordStack = saved[:n-1]
		}
		x.anchor(s, fmt.Sprintf("after loop %d", ls.ord), ls.bodyPos, ls.ord)
		k(s)
		x.ordStack = saved
	})
	x.cont = append(x.cont, backEdge)
	nb, nc := len(x.brk), len(x.cont)
	if ls.pre != nil {
		ls.pre(b)
	}
	x.anchor(b, fmt.Sprintf("in loop %d", ls.ord), ls.bodyPos, ls.ord)
	x.ordStack = append(x.ordStack, ls.ord)
	x.block(b, ls.body, backEdge)
	x.ordStack = x.ordStack[:len(x.ordStack)-1]
	if len(x.brk) != nb || len(x.cont) != nc {
		fail("internal: unbalanced control stack")
	}
	x.brk = x.brk[:nb-1]
	x.cont = x.cont[:nc-1]
}

func splitConj(t Term) []Term {
	parts := splitConj1(t)
	if len(parts) == 1 {
		return parts
	}
	var out []Term
	for _, p := range parts {
		out = append(out, splitConj(p)...)
	}
	return out
}

func splitConj1(t Term) []Term {
	if !strings.HasPrefix(t.S, "(and ") {
		return []Term{t}
	}
	// split top-level args
	body := t.S[5 : len(t.S)-1]
	var out []Term
	depth := 0
	start := 0
	for i := 0; i < len(body); i++ {
		switch body[i] {
		case '(':
			depth++
		case ')':
			depth--
		case ' ':
			if depth == 0 {
				if i > start {
					out = append(out, Term{body[start:i], SBool})
				}
				start = i + 1
			}
		}
	}
	if start < len(body) {
		out = append(out, Term{body[start:], SBool})
	}
	return out
}

func (x *Exec) forStmt(st *State, s *ast.ForStmt, k cont) {
	ord := x.loopOrd[s]
	run := func(st *State) {
		ms := x.analyseMods(s.Cond, s.Post, s.Body)
		ls := &loopSpec{ord: ord, node: s, mods: ms, body: s.Body.List, bodyPos: s.Body.Lbrace + 1, bodyEnd: s.Body.Rbrace}
		if s.Cond != nil {
			ls.cond = func(st *State) Term { return asTerm(x.eval(st, s.Cond)) }
		}
		if s.Post != nil {
			ls.post = func(st *State) { x.stmt(st, s.Post, func(*State) {}) }
		}
		// synthesise "bound - i" for `i < E` / `i <= E` with i++ where the body assigns neither
		if be, ok := s.Cond.(*ast.BinaryExpr); ok && (be.Op == token.LSS || be.Op == token.LEQ) {
			if inc, ok := s.Post.(*ast.IncDecStmt); ok && inc.Tok == token.INC {
				if id, ok := inc.X.(*ast.Ident); ok {
					if cid, ok := unparen(be.X).(*ast.Ident); ok && cid.Name == id.Name {
						bodyMods := x.analyseMods(s.Body)
						obj := x.pkg.TypesInfo.ObjectOf(id)
						okB := !bodyMods.vars[obj]
						ast.Inspect(be.Y, func(n ast.Node) bool {
							if i2, ok := n.(*ast.Ident); ok {
								if o := x.pkg.TypesInfo.ObjectOf(i2); o != nil && bodyMods.vars[o] {
									okB = false
								}
							}
							return true
						})
						if okB {
							ls.autoDec = func(st *State) (Term, bool) {
								sub := st.clone()
								nob := len(x.obls)
								b := asTerm(x.eval(sub, be.Y))
								x.obls = x.obls[:nob]
								i := asTerm(x.eval(sub, id))
								x.obls = x.obls[:nob]
								d := Sub(b, i)
								if be.Op == token.LEQ {
									d = Add(d, Int(1))
								}
								return d, true
							}
						}
					}
				}
			}
		}
		x.runLoop(st, ls, k)
	}
	if s.Init != nil {
		x.stmt(st, s.Init, run)
	} else {
		run(st)
	}
}


func (x *Exec) rangeStmt(st *State, s *ast.RangeStmt, k cont) {
	ord := x.loopOrd[s]
	rv := x.eval(st, s.X)
	hidden := fmt.Sprintf("$i%d", ord)
	ms := x.analyseMods(s.Body)
	var keyObj, valObj types.Object
	if id, ok := s.Key.(*ast.Ident); ok && id.Name != "_" {
		keyObj = x.pkg.TypesInfo.ObjectOf(id)
	}
	if s.Value != nil {
		if id, ok := s.Value.(*ast.Ident); ok && id.Name != "_" {
			valObj = x.pkg.TypesInfo.ObjectOf(id)
		}
	}
	switch r := rv.(type) {
	case SliceV, ArrayV:
		var n Term
		if sl, ok := r.(SliceV); ok {
			n = sl.Len
		} else {
			n = Int(r.(ArrayV).N)
		}
		st.ghost[hidden] = Int(0)
		if keyObj != nil {
			st.vars[keyObj] = sc(Int(0))
			ms.vars[keyObj] = true
		}
		if valObj != nil {
			st.vars[valObj] = x.zero(st, valObj.Type())
			ms.vars[valObj] = true
		}
		ls := &loopSpec{ord: ord, node: s, mods: ms, body: s.Body.List, bodyPos: s.Body.Lbrace + 1, bodyEnd: s.Body.Rbrace}
		ls.cond = func(st *State) Term { return Cmp("<", st.ghost[hidden], n) }
		ls.pre = func(st *State) {
			i := st.ghost[hidden]
			if keyObj != nil {
				st.vars[keyObj] = sc(i)
			}
			if valObj != nil {
				if sl, ok := r.(SliceV); ok {
					x.readFrame(st, sl, i, s)
					st.vars[valObj] = x.readElem(st, sl, i)
				} else {
					av := r.(ArrayV)
					st.vars[valObj] = x.wrapScalar(st, Select(av.Arr, i), av.Elem, false)
				}
			}
		}
		ls.post = func(st *State) { st.ghost[hidden] = Add(st.ghost[hidden], Int(1)) }
		ls.autoDec = func(st *State) (Term, bool) { return Sub(n, st.ghost[hidden]), true }
		ls.hiddenBound = &n
		if keyObj != nil {
			ls.syncKey = func(st *State) { st.vars[keyObj] = sc(st.ghost[hidden]) }
		}
		// hidden index is loop-modified
		x.runLoopHidden(st, ls, hidden, k)
	case OpaqueV:
		// range over a channel: each iteration receives an arbitrary value
		if _, ok := r.Typ.Underlying().(*types.Chan); !ok {
			fail("range over %s not in subset at %s", r.Typ, x.pos(s.Pos()))
		}
		st.ghost[hidden] = Int(0)
		if keyObj != nil {
			st.vars[keyObj] = x.zero(st, keyObj.Type())
			ms.vars[keyObj] = true
		}
		ms.ghost = true
		ls := &loopSpec{ord: ord, node: s, mods: ms, body: s.Body.List, bodyPos: s.Body.Lbrace + 1, bodyEnd: s.Body.Rbrace}
		more := x.fresh("chan_more", SBool)
		ls.cond = func(st *State) Term { return x.fresh("recv_ok", SBool) }
		_ = more
		ls.pre = func(st *State) {
			if keyObj != nil {
				st.vars[keyObj] = x.freshLike(st, x.zero(st, keyObj.Type()), keyObj.Name())
			}
			if lc := x.loopContract(ord); lc != nil {
				for _, a := range lc.Assumes {
					env := x.specEnvAt(st, ls.bodyPos, ord)
					st.assume(asTerm(x.evalSpec(env, a.E)), "recv-assumes")
				}
			}
		}
		ls.post = func(st *State) { st.ghost[hidden] = Add(st.ghost[hidden], Int(1)) }
		x.eng.note(x.key, fmt.Sprintf("loop %d ranges over a channel: termination depends on the sender closing it (not checked)", ord))
		ls.autoDec = nil
		x.runLoopHidden(st, ls, hidden, k)
	default:
		fail("range over %T not in subset at %s", rv, x.pos(s.Pos()))
	}
}

// runLoopHidden havocs the hidden index together with the loop's modified set.
func (x *Exec) runLoopHidden(st *State, ls *loopSpec, hidden string, k cont) {
	x.hiddenStack = append(x.hiddenStack, hidden)
	defer func() { x.hiddenStack = x.hiddenStack[:len(x.hiddenStack)-1] }()
	ls.hidden = hidden
	x.runLoop(st, ls, k)
}

// ---------------------------------------------------------------------------
// Anchored assertions / lemma uses

func (x *Exec) anchor(st *State, where string, pos token.Pos, ord int) {
	if x.contract == nil {
		return
	}
	if ord == 0 && len(x.ordStack) > 0 {
		ord = x.ordStack[len(x.ordStack)-1]
	}
	for i, a := range x.contract.Anchors {
		if a.Anchor != where {
			continue
		}
		env := x.specEnvAt(st, pos, ord)
		switch a.Kind {
		case "assert":
			g := asTerm(x.evalSpec(env, a.Clause.E))
			for j, cj := range splitConj(g) {
				x.check(st, "assert", fmt.Sprintf("assert/%s#%d.%d", strings.ReplaceAll(where, " ", "-"), i+1, j+1), cj, token.NoPos, a.Clause.Src)
			}
		case "use":
			x.useLemma(st, env, a.Clause, where, i)
		case "havoc":
			for _, tgt := range strings.Split(a.Clause.Src, ",") {
				tgt = strings.TrimSpace(tgt)
				star := strings.HasSuffix(tgt, "[*]")
				v := x.specIdent(env, &EIdent{Name: strings.TrimSuffix(tgt, "[*]")})
				sv, ok := v.(SliceV)
				if !ok {
					fail("havoc target %s is not a slice", tgt)
				}
				if !star {
					hk, es := heapKey(sv.Elem)
					h := x.heap(st, hk, es)
					st.heaps[hk] = Store(h, sv.Ref, x.fresh("pool_"+strings.TrimSuffix(tgt, "[*]"), ArrSort(es)))
				} else {
					inner := sv.Elem.Underlying().(*types.Slice)
					hk, es := heapKey(inner.Elem())
					h := x.heap(st, hk, es)
					nh := x.fresh("H_"+hk, h.Sort)
					x.preserveFrameCall(st, hk, h, nh, sv)
					_ = es
					st.heaps[hk] = nh
				}
			}
			x.eng.assume(fmt.Sprintf("%s: %s: memory written by the worker goroutines (%s) is havocked (M1)", x.key, where, a.Clause.Src))
		case "assume":
			// explicitly trusted facts (meta-theorems such as the pool contract M1); listed in the evidence
			st.assume(asTerm(x.evalSpec(env, a.Clause.E)), "ASSUMED:"+where)
			x.eng.assume(fmt.Sprintf("%s: assumed %s: %s", x.key, where, a.Clause.Src))
		}
	}
	// pinned (property-level) assertions at the same anchor
	for _, pb := range x.pinned {
		if !caseSelected(pb, x.caseVals, x.caseLbl) {
			continue
		}
		for i, a := range pb.Anchors {
			if a.Anchor != where || (a.Kind != "assert" && a.Kind != "use") {
				continue
			}
			env := x.specEnvAt(st, pos, ord)
			env.lets = append(append([]LetDef{}, env.lets...), pb.Lets...)
			if a.Kind == "use" {
				n0 := len(x.obls)
				x.useLemma(st, env, a.Clause, "pinned "+where, i)
				for _, o := range x.obls[n0:] {
					for prop := range pb.Props {
						o.Prop = prop
					}
				}
				continue
			}
			g := asTerm(x.evalSpec(env, a.Clause.E))
			for prop := range pb.Props {
				for j, cj := range splitConj(g) {
					o := x.oblige(st, "pinned", fmt.Sprintf("%s/assert/%s#%d.%d", prop, strings.ReplaceAll(where, " ", "-"), i+1, j+1), cj, token.NoPos, a.Clause.Src)
					o.Prop = prop
				}
			}
			// proved separately (its failure is reported by this same check); available to what follows
			st.assume(g, "checked:pinned-assert")
		}
	}
}

// callMods records the heap effects of a call for loop havoc.
func (x *Exec) callMods(call *ast.CallExpr, ms *modSet) {
	fun := unparen(call.Fun)
	if tv, ok := x.pkg.TypesInfo.Types[call.Fun]; ok && tv.IsType() {
		return
	}
	markBase := func(arg ast.Expr) {
		t := x.typeOf(arg)
		if sl, ok := t.Underlying().(*types.Slice); ok {
			for _, key := range heapKeysOf(sl.Elem()) {
				ms.heaps[key] = append(ms.heaps[key], unparen(arg))
			}
		}
	}
	if id, ok := fun.(*ast.Ident); ok {
		if b, ok := x.pkg.TypesInfo.ObjectOf(id).(*types.Builtin); ok {
			switch b.Name() {
			case "copy":
				markBase(call.Args[0])
			case "append":
				t := x.typeOf(call.Args[0])
				if sl, ok := t.Underlying().(*types.Slice); ok {
					for _, key := range heapKeysOf(sl.Elem()) {
						ms.coarse[key] = true
					}
				}
				ms.allocs = true
			case "make":
				ms.allocs = true
				t := x.typeOf(call.Args[0])
				if sl, ok := t.Underlying().(*types.Slice); ok {
					for _, key := range heapKeysOf(sl.Elem()) {
						ms.coarse[key] = true
					}
				}
			case "close":
				ms.ghost = true
			}
			return
		}
	}
	var callee *types.Func
	switch f := fun.(type) {
	case *ast.Ident:
		callee, _ = x.pkg.TypesInfo.ObjectOf(f).(*types.Func)
	case *ast.SelectorExpr:
		if sel := x.pkg.TypesInfo.Selections[f]; sel != nil {
			callee, _ = sel.Obj().(*types.Func)
		} else {
			callee, _ = x.pkg.TypesInfo.ObjectOf(f.Sel).(*types.Func)
		}
	}
	if callee == nil {
		// function value: results are fresh memory
		ms.allocs = true
		return
	}
	path := funcPath(callee)
	if !strings.HasPrefix(path, x.eng.modPath) {
		switch {
		case path == "io.ReadFull":
			markBase(call.Args[1])
			ms.ghost = true
		case callee.Name() == "Read" && len(call.Args) == 1:
			markBase(call.Args[0])
			ms.ghost = true
		case path == "sync/atomic.AddInt32":
			if u, ok := unparen(call.Args[0]).(*ast.UnaryExpr); ok {
				if ie, ok := unparen(u.X).(*ast.IndexExpr); ok {
					markBase(ie.X)
				}
			}
		case strings.HasPrefix(path, "sync."), strings.HasPrefix(path, "os."), strings.HasPrefix(path, "io."), callee.Name() == "Write":
			ms.ghost = true
		case path == "io/ioutil.ReadFile":
			ms.coarse["byte"] = true
			ms.allocs = true
		}
		return
	}
	c := x.eng.contracts[x.eng.keyOf(callee)]
	if c == nil {
		return
	}
	sig := callee.Type().(*types.Signature)
	for _, m := range c.Modifies {
		if strings.HasPrefix(m, "wraps:") {
			continue
		}
		star := strings.HasSuffix(m, "[*]")
		name := strings.TrimSuffix(m, "[*]")
		for i := 0; i < sig.Params().Len(); i++ {
			if sig.Params().At(i).Name() != name {
				continue
			}
			t := sig.Params().At(i).Type()
			if sl, ok := t.Underlying().(*types.Slice); ok {
				et := sl.Elem()
				if star {
					if in, ok := et.Underlying().(*types.Slice); ok {
						et = in.Elem()
					}
				}
				for _, key := range heapKeysOf(et) {
					ms.coarse[key] = true
				}
			}
		}
	}
	ms.allocs = true
	if len(c.Ghost) > 0 {
		ms.ghost = true
	}
}

// preserveFrame states, without quantifier alternation, which pre-existing arrays of heap `key` keep their
// contents across a havoc: arrays of parameters (directly, through one level of nesting, or through struct
// fields) that are not in the modifies clause and do not alias a modifiable parameter, and global tables.
// Sound because every store is checked against frameOK (fresh memory or the modifies clause).
func (x *Exec) preserveFrame(n *State, st *State, key string, old, nh Term) {
	modRefs := []Term{}
	var modRows []SliceV
	for _, m := range x.modSpecs {
		sv, ok := m.v.(SliceV)
		if !ok {
			continue
		}
		if !m.star {
			if k, _ := heapKey(sv.Elem); k == key {
				modRefs = append(modRefs, sv.Ref)
			}
		} else if in, ok := sv.Elem.Underlying().(*types.Slice); ok {
			if k, _ := heapKey(in.Elem()); k == key {
				modRows = append(modRows, sv)
			}
		}
	}
	notMod := func(ref Term) Term {
		cs := []Term{}
		for _, mr := range modRefs {
			cs = append(cs, Neq(ref, mr))
		}
		return And(cs...)
	}
	var visit func(v Value, depth int)
	visit = func(v Value, depth int) {
		switch a := v.(type) {
		case SliceV:
			if _, isStruct := a.Elem.Underlying().(*types.Struct); isStruct {
				return
			}
			k, _ := heapKey(a.Elem)
			if k == key {
				isMod := false
				for _, mr := range modRefs {
					if mr.S == a.Ref.S {
						isMod = true
					}
				}
				if !isMod && len(modRows) == 0 {
					n.assume(Implies(notMod(a.Ref), Eq(Select(nh, a.Ref), Select(old, a.Ref))), "frame:param")
				}
			}
			if in, ok := a.Elem.Underlying().(*types.Slice); ok && depth == 0 {
				if ik, _ := heapKey(in.Elem()); ik == key {
					isModRows := false
					for _, mr := range modRows {
						if mr.Ref.S == a.Ref.S {
							isModRows = true
						}
					}
					if !isModRows && len(modRows) == 0 {
						okey, _ := heapKey(a.Elem)
						outer := Select(x.preHeap(okey, SSl), a.Ref)
						q := Term{"fp!a", SInt}
						row := App(SInt, "s-ref", Select(outer, Add(a.Off, q)))
						n.assume(Forall([]Term{q}, Implies(And(Cmp("<=", Int(0), q), Cmp("<", q, a.Len), notMod(row)), Eq(Select(nh, row), Select(old, row))), []Term{Select(outer, Add(a.Off, q))}), "frame:param-rows")
					}
				}
			}
		case StructV:
			for _, f := range a.F {
				visit(f, depth)
			}
		}
	}
	for _, pv := range x.pre.vars {
		visit(pv, 0)
	}
	// global tables live below ref 100 (alloc0 >= 100) and are never modifiable
	r := Term{"fr!r", SInt}
	n.assume(Forall([]Term{r}, Implies(And(Cmp("<", Int(0), r), Cmp("<", r, Int(100))), Eq(Select(nh, r), Select(old, r))), []Term{Select(nh, r)}), "frame:globals")
}
