package main

import (
	"fmt"
	"go/ast"
	"go/types"
	"strings"
)

func ghostKey(kind string, obj Value) string {
	if obj == nil {
		return kind + "|"
	}
	return kind + "|" + asTerm(obj).S
}

func (x *Exec) ghostSym(key, sort string) Term {
	return x.declareOnce("G_"+symSan.ReplaceAllString(key, "_")+"_0", sort)
}

func (x *Exec) ghostDefault(key, sort string) Term { return x.ghostSym(key, sort) }

func (x *Exec) ghostGet(st *State, kind string, obj Value, sort string) Term {
	key := ghostKey(kind, obj)
	if g, ok := st.ghost[key]; ok {
		return g
	}
	var g Term
	if st.gepoch == 0 {
		g = x.ghostSym(key, sort)
	} else {
		g = x.declareOnce(fmt.Sprintf("G_%s_e%d", symSan.ReplaceAllString(key, "_"), st.gepoch), sort)
	}
	st.ghost[key] = g
	return g
}

// ghostHavoc forgets the ghost entries of the given kinds (effects of a callee); they are re-created fresh on demand.
func (x *Exec) ghostHavoc(st *State, kinds []string) {
	x.eng.counter++
	st.gepoch = x.eng.counter
	for key := range st.ghost {
		k := key
		if i := strings.Index(key, "|"); i >= 0 {
			k = key[:i]
		}
		for _, kind := range kinds {
			if k == kind || (kind == "sent" && (strings.HasPrefix(k, "sendlog") || strings.HasPrefix(k, "sendlen") || strings.HasPrefix(k, "sendseq"))) {
				delete(st.ghost, key)
			}
		}
	}
}

func (x *Exec) ghostSet(st *State, kind string, obj Value, v Term) {
	st.ghost[ghostKey(kind, obj)] = v
}

func (x *Exec) ghostBump(st *State, kind string, obj Value) {
	cur := x.ghostGet(st, kind, obj, SInt)
	x.ghostSet(st, kind, obj, Add(cur, Int(1)))
}

func (x *Exec) ghostSend(st *State, ch Value, v Value) {
	n := x.ghostGet(st, "sent", ch, SInt)
	if s, ok := v.(Scalar); ok && s.T.Sort == SInt {
		log := x.ghostGet(st, "sendlog", ch, ArrSort(SInt))
		x.ghostSet(st, "sendlog", ch, Store(log, n, s.T))
	}
	if p, ok := v.(PtrV); ok {
		log := x.ghostGet(st, "sendlog", ch, ArrSort(SInt))
		x.ghostSet(st, "sendlog", ch, Store(log, n, p.Ref))
	}
	if sv, ok := v.(StructV); ok {
		// struct-valued jobs: log every field (integers by value, slices by length and a snapshot of their contents)
		for name, fv := range sv.F {
			switch f := fv.(type) {
			case Scalar:
				if f.T.Sort == SInt {
					log := x.ghostGet(st, "sendlog."+name, ch, ArrSort(SInt))
					x.ghostSet(st, "sendlog."+name, ch, Store(log, n, f.T))
				}
			case SliceV:
				_, es := heapKey(f.Elem)
				ll := x.ghostGet(st, "sendlen."+name, ch, ArrSort(SInt))
				x.ghostSet(st, "sendlen."+name, ch, Store(ll, n, f.Len))
				sl := x.ghostGet(st, "sendseq."+name, ch, ArrSort(ArrSort(es)))
				x.ghostSet(st, "sendseq."+name, ch, Store(sl, n, x.seqOf(st, f)))
			}
		}
	}
	x.ghostSet(st, "sent", ch, Add(n, Int(1)))
}

func (x *Exec) ghostLog(st *State, kind string, v Term) {
	none := OpaqueV{T: Int(0)}
	n := x.ghostGet(st, "nlog:"+kind, none, SInt)
	log := x.ghostGet(st, "log:"+kind, none, ArrSort(SStr))
	x.ghostSet(st, "log:"+kind, none, Store(log, n, v))
	x.ghostSet(st, "nlog:"+kind, none, Add(n, Int(1)))
}

func (x *Exec) ghostLogInt(st *State, kind string, v Term) {
	none := OpaqueV{T: Int(0)}
	n := x.ghostGet(st, "nilog:"+kind, none, SInt)
	log := x.ghostGet(st, "ilog:"+kind, none, ArrSort(SInt))
	x.ghostSet(st, "ilog:"+kind, none, Store(log, n, v))
	x.ghostSet(st, "nilog:"+kind, none, Add(n, Int(1)))
}

// ghostWrite records bytes written to an io.Writer (used by resultWriter): count only.
func (x *Exec) ghostWrite(st *State, w Value, b SliceV) {
	x.ghostBump(st, "writes", w)
}

// afterWait: hook where a pool contract (M1) would be assumed; the contract language does this
// explicitly with `assume after call Wait: ...` clauses marked as M1 in the evidence.
func (x *Exec) afterWait(st *State, call *ast.CallExpr, recv Value) {
	x.anchor(st, "after Wait", call.Pos(), 0)
}

// ---------------------------------------------------------------------------
// read frames: `reads p[lo .. hi)` clauses are kept in contract.Modifies as "reads:<param>:<lo>:<hi>" — see verify.go


func (x *Exec) readFrame(st *State, b SliceV, idx Term, at ast.Node) {
	for _, rs := range x.readSpecs {
		k1, _ := heapKey(b.Elem)
		if k1 != rs.key {
			continue
		}
		env := x.specEnvPre(st)
		lo := asTerm(x.evalSpec(env, rs.lo))
		hi := asTerm(x.evalSpec(env, rs.hi))
		abs := Add(b.Off, idx)
		g := Implies(Eq(b.Ref, rs.ref), And(Cmp("<=", Add(rs.off, lo), abs), Cmp("<", abs, Add(rs.off, hi))))
		x.check(st, "reads", "frame/read", g, at.Pos(), "read of "+rs.param+" stays inside ["+rs.src+")")
	}
}

type readSpecR struct {
	param  string
	key    string
	ref    Term
	off    Term
	lo, hi Expr
	src    string
}

var _ = types.Typ
