package main

// Contract / spec expression language: lexer, parser, AST.

import (
	"fmt"
	"strings"
)

type Expr interface{}

type (
	EIdent struct {
		Name string
		Pre  bool
	}
	EInt  struct{ V string }
	EReal struct{ V string }
	EBool struct{ V bool }
	EStr  struct{ V string }
	EUn   struct {
		Op string
		X  Expr
	}
	EBin struct {
		Op   string
		L, R Expr
	}
	ECond struct{ C, A, B Expr }
	ECall struct {
		Fn   string
		Res  int // for F-abstraction: Name#k(...); -1 otherwise
		Args []Expr
	}
	EIndex struct{ X, I Expr }
	ESlice struct{ X, Lo, Hi Expr }
	EField struct {
		X Expr
		F string
	}
	EQuant struct {
		Forall bool
		Vars   []Param
		Body   Expr
		Pats   [][]Expr
	}
	EOld struct{ X Expr } // x@pre applied to non-ident: evaluates X in the pre-state
)

type Param struct {
	Name string
	Type string // int, real, bool, byte, str, seq<T>
}

type tok struct {
	kind string // id, int, real, str, op, eof
	s    string
	pos  int
}

type lexer struct {
	src  string
	toks []tok
	p    int
}

func lex(src string) ([]tok, error) {
	var toks []tok
	i := 0
	for i < len(src) {
		c := src[i]
		switch {
		case c == ' ' || c == '\t' || c == '\n' || c == '\r':
			i++
		case c == '_' || c == '$' || (c >= 'a' && c <= 'z') || (c >= 'A' && c <= 'Z'):
			j := i + 1
			for j < len(src) && (src[j] == '_' || src[j] == '$' || (src[j] >= 'a' && src[j] <= 'z') || (src[j] >= 'A' && src[j] <= 'Z') || (src[j] >= '0' && src[j] <= '9')) {
				j++
			}
			toks = append(toks, tok{"id", src[i:j], i})
			i = j
		case c >= '0' && c <= '9':
			j := i
			isReal := false
			for j < len(src) && src[j] >= '0' && src[j] <= '9' {
				j++
			}
			if j+1 < len(src) && src[j] == '.' && src[j+1] >= '0' && src[j+1] <= '9' {
				isReal = true
				j++
				for j < len(src) && src[j] >= '0' && src[j] <= '9' {
					j++
				}
			}
			if j < len(src) && (src[j] == 'e' || src[j] == 'E') {
				k := j + 1
				if k < len(src) && (src[k] == '-' || src[k] == '+') {
					k++
				}
				if k < len(src) && src[k] >= '0' && src[k] <= '9' {
					isReal = true
					for k < len(src) && src[k] >= '0' && src[k] <= '9' {
						k++
					}
					j = k
				}
			}
			if isReal {
				toks = append(toks, tok{"real", src[i:j], i})
			} else {
				toks = append(toks, tok{"int", src[i:j], i})
			}
			i = j
		case c == '"':
			j := i + 1
			for j < len(src) && src[j] != '"' {
				j++
			}
			if j >= len(src) {
				return nil, fmt.Errorf("unterminated string at %d", i)
			}
			toks = append(toks, tok{"str", src[i+1 : j], i})
			i = j + 1
		default:
			ops := []string{"<==>", "==>", "::", ":=", "==", "!=", "<=", ">=", "&&", "||", "..", "@pre"}
			matched := false
			for _, op := range ops {
				if strings.HasPrefix(src[i:], op) {
					toks = append(toks, tok{"op", op, i})
					i += len(op)
					matched = true
					break
				}
			}
			if matched {
				break
			}
			if strings.ContainsRune("+-*/%<>!?:()[]{},.#@=", rune(c)) {
				toks = append(toks, tok{"op", string(c), i})
				i++
				break
			}
			return nil, fmt.Errorf("unexpected character %q at %d in %q", c, i, src)
		}
	}
	toks = append(toks, tok{"eof", "", len(src)})
	return toks, nil
}

type parser struct {
	toks []tok
	p    int
	src  string
}

func parseExpr(src string) (e Expr, err error) {
	toks, err := lex(src)
	if err != nil {
		return nil, err
	}
	ps := &parser{toks: toks, src: src}
	defer func() {
		if r := recover(); r != nil {
			if pe, ok := r.(parseErr); ok {
				err = fmt.Errorf("%s (in %q)", string(pe), src)
				return
			}
			panic(r)
		}
	}()
	e = ps.expr()
	if ps.peek().kind != "eof" {
		ps.fail("trailing input at %q", ps.peek().s)
	}
	return e, nil
}

type parseErr string

func (ps *parser) fail(f string, a ...interface{}) {
	panic(parseErr(fmt.Sprintf(f, a...)))
}
func (ps *parser) peek() tok { return ps.toks[ps.p] }
func (ps *parser) next() tok { t := ps.toks[ps.p]; ps.p++; return t }
func (ps *parser) isOp(s string) bool {
	t := ps.peek()
	return t.kind == "op" && t.s == s
}
func (ps *parser) isId(s string) bool {
	t := ps.peek()
	return t.kind == "id" && t.s == s
}
func (ps *parser) accept(s string) bool {
	if ps.isOp(s) {
		ps.p++
		return true
	}
	return false
}
func (ps *parser) expect(s string) {
	if !ps.accept(s) {
		ps.fail("expected %q, got %q", s, ps.peek().s)
	}
}

func (ps *parser) typ() string {
	t := ps.next()
	if t.kind != "id" {
		ps.fail("expected type, got %q", t.s)
	}
	if t.s == "seq" {
		ps.expect("<")
		in := ps.typ()
		ps.expect(">")
		return "seq<" + in + ">"
	}
	return t.s
}

func (ps *parser) expr() Expr {
	if ps.isId("forall") || ps.isId("exists") {
		fa := ps.next().s == "forall"
		var vars []Param
		for {
			var names []string
			for {
				t := ps.next()
				if t.kind != "id" {
					ps.fail("expected bound variable, got %q", t.s)
				}
				names = append(names, t.s)
				if !ps.accept(",") {
					break
				}
			}
			ty := ps.typ()
			for _, n := range names {
				vars = append(vars, Param{n, ty})
			}
			if !ps.accept(",") {
				break
			}
		}
		ps.expect("::")
		var pats [][]Expr
		for ps.isOp("{") {
			ps.next()
			var pat []Expr
			for {
				pat = append(pat, ps.expr())
				if !ps.accept(",") {
					break
				}
			}
			ps.expect("}")
			pats = append(pats, pat)
		}
		body := ps.expr()
		return &EQuant{Forall: fa, Vars: vars, Body: body, Pats: pats}
	}
	return ps.iff()
}

func (ps *parser) iff() Expr {
	l := ps.impl()
	for ps.accept("<==>") {
		r := ps.impl()
		l = &EBin{"<==>", l, r}
	}
	return l
}

func (ps *parser) impl() Expr {
	l := ps.cond()
	if ps.accept("==>") {
		var r Expr
		if ps.isId("forall") || ps.isId("exists") {
			r = ps.expr()
		} else {
			r = ps.impl()
		}
		return &EBin{"==>", l, r}
	}
	return l
}

func (ps *parser) cond() Expr {
	c := ps.or()
	if ps.accept("?") {
		a := ps.expr()
		ps.expect(":")
		b := ps.expr()
		return &ECond{c, a, b}
	}
	return c
}

func (ps *parser) or() Expr {
	l := ps.and()
	for ps.accept("||") {
		r := ps.and()
		l = &EBin{"||", l, r}
	}
	return l
}

func (ps *parser) and() Expr {
	l := ps.cmp()
	for ps.accept("&&") {
		var r Expr
		if ps.isId("forall") || ps.isId("exists") {
			r = ps.expr()
		} else {
			r = ps.cmp()
		}
		l = &EBin{"&&", l, r}
	}
	return l
}

func (ps *parser) cmp() Expr {
	l := ps.sum()
	for _, op := range []string{"==", "!=", "<=", ">=", "<", ">"} {
		if ps.isOp(op) {
			ps.next()
			r := ps.sum()
			return &EBin{op, l, r}
		}
	}
	return l
}

func (ps *parser) sum() Expr {
	l := ps.prod()
	for ps.isOp("+") || ps.isOp("-") {
		op := ps.next().s
		r := ps.prod()
		l = &EBin{op, l, r}
	}
	return l
}

func (ps *parser) prod() Expr {
	l := ps.unary()
	for ps.isOp("*") || ps.isOp("/") || ps.isOp("%") {
		op := ps.next().s
		r := ps.unary()
		l = &EBin{op, l, r}
	}
	return l
}

func (ps *parser) unary() Expr {
	if ps.isOp("-") || ps.isOp("!") {
		op := ps.next().s
		x := ps.unary()
		return &EUn{op, x}
	}
	return ps.postfix()
}

func (ps *parser) postfix() Expr {
	x := ps.primary()
	for {
		switch {
		case ps.isOp("["):
			ps.next()
			var lo, hi Expr
			if ps.isOp(":") {
				ps.next()
				if !ps.isOp("]") {
					hi = ps.expr()
				}
				ps.expect("]")
				x = &ESlice{x, nil, hi}
				continue
			}
			lo = ps.or()
			if ps.accept(":") {
				if !ps.isOp("]") {
					hi = ps.or()
				}
				ps.expect("]")
				x = &ESlice{x, lo, hi}
				continue
			}
			ps.expect("]")
			x = &EIndex{x, lo}
		case ps.isOp("."):
			ps.next()
			t := ps.next()
			if t.kind != "id" && t.kind != "int" {
				ps.fail("expected field name after '.'")
			}
			x = &EField{x, t.s}
		case ps.isOp("@pre"):
			ps.next()
			if id, ok := x.(*EIdent); ok {
				x = &EIdent{Name: id.Name, Pre: true}
			} else {
				x = &EOld{x}
			}
		default:
			return x
		}
	}
}

func (ps *parser) primary() Expr {
	t := ps.next()
	switch t.kind {
	case "int":
		return &EInt{t.s}
	case "real":
		return &EReal{t.s}
	case "str":
		return &EStr{t.s}
	case "id":
		switch t.s {
		case "true":
			return &EBool{true}
		case "false":
			return &EBool{false}
		}
		name := t.s
		// qualified names pkg.Func#k(...) are written with '.'; handled as field access on ident
		res := -1
		if ps.isOp("#") {
			ps.next()
			k := ps.next()
			if k.kind != "int" {
				ps.fail("expected result index after '#'")
			}
			fmt.Sscanf(k.s, "%d", &res)
		}
		if ps.isOp("(") {
			ps.next()
			var args []Expr
			if !ps.isOp(")") {
				for {
					args = append(args, ps.expr())
					if !ps.accept(",") {
						break
					}
				}
			}
			ps.expect(")")
			return &ECall{Fn: name, Res: res, Args: args}
		}
		if res >= 0 {
			ps.fail("'#' must be followed by a call")
		}
		return &EIdent{Name: name}
	case "op":
		if t.s == "(" {
			e := ps.expr()
			ps.expect(")")
			return e
		}
	}
	ps.fail("unexpected token %q", t.s)
	return nil
}

// ---------------------------------------------------------------------------
// Contract files

type LoopContract struct {
	Ordinal    int
	Invariants []Clause
	Decreases  *Clause
	Assumes    []Clause // assumptions about values received from a channel (range over chan)
	Coarse     bool
	Unroll     bool
}

type Clause struct {
	Src  string
	E    Expr
	Tag  string // optional label
	File string
	Line int
}

type AnchorClause struct {
	Kind   string // "assert" | "use" | "assume"
	Anchor string // "after loop 2" | "before loop 2" | "before call X" | "before return"
	Clause Clause
}

type FuncContract struct {
	Name     string // "Func" or "Recv.Method"
	Pkg      string
	Cases    []CaseSpec
	Requires []Clause
	Ensures  []Clause
	Panics   *Clause // panics when E
	PanicsOnly bool  // "panics only when E": explicit panics occur only under E (no claim that E forces a panic)
	Modifies []string
	HasMod   bool
	Pure     bool
	Lets     []LetDef
	Loops    map[int]*LoopContract
	Anchors  []AnchorClause
	Mode     string
	Trusted  bool
	Inline   bool
	Reads    []ReadClause
	Calls    map[string][]string // function-valued parameter -> candidate callees
	Fuel     int
	Ghost    []string
	Defines  []Clause        // `defines E`: names the function's effect by an otherwise unconstrained spec function; assumed by callers, not an obligation of the body
	Lifts    []Clause        // `lift lemma(args)`: the lemma (declared `lifted pkg.Func`) is this function's behaviour over its functional abstraction
	Props    map[string]bool // for pinned blocks
	Classes  []string
	File     string
	Line     int
}

type ReadClause struct {
	Param  string
	Lo, Hi Expr
	Src    string
}

type CaseSpec struct {
	Var  string
	Vals []string
}

type LetDef struct {
	Name string
	E    Expr
	Src  string
}

var clauseKeywords = map[string]bool{
	"func": true, "cases": true, "requires": true, "ensures": true, "modifies": true,
	"panics": true, "pure": true, "loop": true, "invariant": true, "decreases": true,
	"assert": true, "use": true, "let": true, "mode": true, "trusted": true, "assumes": true,
	"classes": true, "property": true, "inline": true, "coarse": true, "assume": true, "reads": true, "wraps": true, "fuel": true, "unroll": true, "calls": true, "havoc": true, "ghost": true, "lift": true, "defines": true,
}

type rawLine struct {
	text string
	file string
	line int
}

// joinClauses merges continuation lines (those not starting with a keyword) into the previous clause.
func joinClauses(lines []rawLine) []rawLine {
	var out []rawLine
	for _, l := range lines {
		t := strings.TrimSpace(l.text)
		if i := strings.Index(t, " //"); i >= 0 {
			t = strings.TrimSpace(t[:i])
		}
		if strings.HasPrefix(t, "//") {
			continue
		}
		if t == "" {
			continue
		}
		first := t
		if i := strings.IndexAny(t, " \t"); i >= 0 {
			first = t[:i]
		}
		if clauseKeywords[first] || len(out) == 0 {
			out = append(out, rawLine{t, l.file, l.line})
		} else {
			out[len(out)-1].text += " " + t
		}
	}
	return out
}

func mkClause(src string, l rawLine) (Clause, error) {
	e, err := parseExpr(src)
	if err != nil {
		return Clause{}, fmt.Errorf("%s:%d: %v", l.file, l.line, err)
	}
	return Clause{Src: src, E: e, File: l.file, Line: l.line}, nil
}

// parseContractLines parses a sequence of clause lines into function contracts.
func parseContractLines(lines []rawLine, pkg string) ([]*FuncContract, error) {
	var out []*FuncContract
	var cur *FuncContract
	var curLoop *LoopContract
	for _, l := range joinClauses(lines) {
		t := l.text
		kw := t
		rest := ""
		if i := strings.IndexAny(t, " \t"); i >= 0 {
			kw, rest = t[:i], strings.TrimSpace(t[i+1:])
		}
		if kw == "func" {
			cur = &FuncContract{Name: rest, Pkg: pkg, Loops: map[int]*LoopContract{}, File: l.file, Line: l.line}
			if i := strings.Index(rest, "."); i > 0 && strings.Contains(rest[:i], "/") == false && strings.Count(rest, ".") == 1 && pkg == "" {
				// props files may qualify as pkg.Func
			}
			out = append(out, cur)
			curLoop = nil
			continue
		}
		if cur == nil {
			return nil, fmt.Errorf("%s:%d: clause before any func", l.file, l.line)
		}
		switch kw {
		case "cases":
			// cases m in {2, 4, 8}
			var v string
			parts := strings.SplitN(rest, " in ", 2)
			if len(parts) != 2 {
				return nil, fmt.Errorf("%s:%d: bad cases clause", l.file, l.line)
			}
			v = strings.TrimSpace(parts[0])
			set := strings.Trim(strings.TrimSpace(parts[1]), "{}")
			var vals []string
			for _, x := range strings.Split(set, ",") {
				vals = append(vals, strings.TrimSpace(x))
			}
			cur.Cases = append(cur.Cases, CaseSpec{v, vals})
		case "requires", "ensures":
			c, err := mkClause(rest, l)
			if err != nil {
				return nil, err
			}
			if kw == "requires" {
				cur.Requires = append(cur.Requires, c)
			} else {
				cur.Ensures = append(cur.Ensures, c)
			}
		case "defines":
			c, err := mkClause(rest, l)
			if err != nil {
				return nil, err
			}
			cur.Defines = append(cur.Defines, c)
		case "panics":
			if strings.HasPrefix(rest, "only when") {
				cur.PanicsOnly = true
				rest = strings.TrimPrefix(rest, "only")
				rest = strings.TrimSpace(rest)
			}
			rest = strings.TrimSpace(strings.TrimPrefix(rest, "when"))
			c, err := mkClause(rest, l)
			if err != nil {
				return nil, err
			}
			cur.Panics = &c
		case "modifies":
			cur.HasMod = true
			if rest != "nothing" {
				for _, x := range strings.Split(rest, ",") {
					cur.Modifies = append(cur.Modifies, strings.TrimSpace(x))
				}
			}
		case "calls":
			// calls round in {Round15, Round12}
			parts := strings.SplitN(rest, " in ", 2)
			if len(parts) != 2 {
				return nil, fmt.Errorf("%s:%d: bad calls clause", l.file, l.line)
			}
			if cur.Calls == nil {
				cur.Calls = map[string][]string{}
			}
			for _, x := range strings.Split(strings.Trim(strings.TrimSpace(parts[1]), "{}"), ",") {
				cur.Calls[strings.TrimSpace(parts[0])] = append(cur.Calls[strings.TrimSpace(parts[0])], strings.TrimSpace(x))
			}
		case "ghost":
			// ghost pos, readfailed, sent, added   — ghost kinds this function changes
			for _, g := range strings.Split(rest, ",") {
				cur.Ghost = append(cur.Ghost, strings.TrimSpace(g))
			}
		case "fuel":
			fmt.Sscanf(rest, "%d", &cur.Fuel)
		case "lift":
			c, err := mkClause(rest, l)
			if err != nil {
				return nil, err
			}
			cur.Lifts = append(cur.Lifts, c)
		case "wraps":
			cur.Modifies = append(cur.Modifies, "wraps:"+rest)
		case "reads":
			// reads p[lo .. hi)
			i := strings.Index(rest, "[")
			j := strings.Index(rest, "..")
			if i < 0 || j < 0 || !strings.HasSuffix(rest, ")") {
				return nil, fmt.Errorf("%s:%d: bad reads clause", l.file, l.line)
			}
			lo, err := parseExpr(rest[i+1 : j])
			if err != nil {
				return nil, fmt.Errorf("%s:%d: %v", l.file, l.line, err)
			}
			hi, err := parseExpr(rest[j+2 : len(rest)-1])
			if err != nil {
				return nil, fmt.Errorf("%s:%d: %v", l.file, l.line, err)
			}
			cur.Reads = append(cur.Reads, ReadClause{strings.TrimSpace(rest[:i]), lo, hi, rest[i+1 : len(rest)-1]})
		case "pure":
			cur.Pure = true
		case "trusted":
			cur.Trusted = true
		case "inline":
			cur.Inline = true
		case "mode":
			cur.Mode = rest
		case "classes":
			cur.Classes = strings.Fields(strings.ReplaceAll(rest, ",", " "))
		case "let":
			parts := strings.SplitN(rest, ":=", 2)
			if len(parts) != 2 {
				return nil, fmt.Errorf("%s:%d: bad let", l.file, l.line)
			}
			e, err := parseExpr(strings.TrimSpace(parts[1]))
			if err != nil {
				return nil, fmt.Errorf("%s:%d: %v", l.file, l.line, err)
			}
			cur.Lets = append(cur.Lets, LetDef{strings.TrimSpace(parts[0]), e, parts[1]})
		case "loop":
			var k int
			if _, err := fmt.Sscanf(rest, "%d", &k); err != nil {
				return nil, fmt.Errorf("%s:%d: bad loop ordinal", l.file, l.line)
			}
			curLoop = &LoopContract{Ordinal: k}
			cur.Loops[k] = curLoop
		case "coarse":
			if curLoop != nil {
				curLoop.Coarse = true
			}
		case "unroll":
			if curLoop != nil {
				curLoop.Unroll = true
			}
		case "invariant", "decreases", "assumes":
			if curLoop == nil {
				return nil, fmt.Errorf("%s:%d: %s outside loop", l.file, l.line, kw)
			}
			tag := ""
			if strings.HasPrefix(rest, "{") {
				// invariant {C07,C08} expr — an invariant that only these properties' checks use (check and assume)
				j := strings.Index(rest, "}")
				if j < 0 {
					return nil, fmt.Errorf("%s:%d: unterminated property tag", l.file, l.line)
				}
				tag = strings.ReplaceAll(rest[1:j], " ", "")
				rest = strings.TrimSpace(rest[j+1:])
			}
			c, err := mkClause(rest, l)
			if err != nil {
				return nil, err
			}
			c.Tag = tag
			switch kw {
			case "invariant":
				curLoop.Invariants = append(curLoop.Invariants, c)
			case "decreases":
				curLoop.Decreases = &c
			case "assumes":
				curLoop.Assumes = append(curLoop.Assumes, c)
			}
		case "havoc":
			// havoc <anchor>: x, y[*]   — effects of concurrently running goroutines become visible here (M1)
			i := strings.Index(rest, ":")
			if i < 0 {
				return nil, fmt.Errorf("%s:%d: havoc needs '<anchor>: targets'", l.file, l.line)
			}
			cur.Anchors = append(cur.Anchors, AnchorClause{Kind: "havoc", Anchor: strings.TrimSpace(rest[:i]), Clause: Clause{Src: strings.TrimSpace(rest[i+1:]), File: l.file, Line: l.line}})
		case "assert", "use", "assume":
			// assert <anchor>: E
			i := strings.Index(rest, ":")
			if i < 0 {
				return nil, fmt.Errorf("%s:%d: %s needs '<anchor>: expr'", l.file, l.line, kw)
			}
			anchor := strings.TrimSpace(rest[:i])
			c, err := mkClause(strings.TrimSpace(rest[i+1:]), l)
			if err != nil {
				return nil, err
			}
			cur.Anchors = append(cur.Anchors, AnchorClause{Kind: kw, Anchor: anchor, Clause: c})
		default:
			return nil, fmt.Errorf("%s:%d: unknown clause %q", l.file, l.line, kw)
		}
	}
	return out, nil
}

// ---------------------------------------------------------------------------
// Spec files: spec functions, lemmas, axioms

type SpecFunc struct {
	Name    string
	Params  []Param
	Ret     string
	Body    Expr // nil => uninterpreted
	Src     string
	Axioms  []Clause // extra axioms attached ("axiom name: expr")
	NoPat   bool
	Uninter bool
	Unfold  string // inline the body when this parameter is a small literal at the call site
	Special string // generate a specialised copy when this parameter is a literal at the call site
	Fixed   map[string]Term
	Base    string
}

type Lemma struct {
	Name      string
	Params    []Param
	Requires  []Clause
	Ensures   []Clause
	Induction string
	Step      string // `induction k by P`: hypothesis at k-P (P must be provably >= 1); empty: k-1
	Lifted    string // non-empty: "pkg.Func" — not proved as a lemma; discharged as `lift` obligations of that function
	Trusted   string // non-empty: imported (e.g. from Lean) rather than proved here
	Uses      []Clause
	Fuel      int
}

type SpecDB struct {
	Funcs  map[string]*SpecFunc
	Order  []string
	Lemmas map[string]*Lemma
	Axioms []NamedAxiom
}

type NamedAxiom struct {
	Name string
	C    Clause
	By   string
}

func parseParams(ps *parser) []Param {
	var out []Param
	ps.expect("(")
	if ps.accept(")") {
		return out
	}
	for {
		n := ps.next()
		if n.kind != "id" {
			ps.fail("expected parameter name")
		}
		ty := ps.typ()
		out = append(out, Param{n.s, ty})
		if !ps.accept(",") {
			break
		}
	}
	ps.expect(")")
	return out
}

func parseSpecFile(src, file string, db *SpecDB) error {
	// split into items starting at lines beginning with spec/lemma/axiom/ufun
	lines := strings.Split(src, "\n")
	type item struct {
		text string
		line int
	}
	var items []item
	for i, l := range lines {
		if j := strings.Index(l, "//"); j >= 0 {
			l = l[:j]
		}
		t := strings.TrimSpace(l)
		if t == "" {
			continue
		}
		first := t
		if k := strings.IndexAny(t, " \t"); k >= 0 {
			first = t[:k]
		}
		switch first {
		case "spec", "lemma", "axiom", "ufun":
			items = append(items, item{t, i + 1})
		default:
			if len(items) == 0 {
				return fmt.Errorf("%s:%d: text before first item", file, i+1)
			}
			items[len(items)-1].text += "\n" + t
		}
	}
	for _, it := range items {
		if err := parseSpecItem(it.text, file, it.line, db); err != nil {
			return err
		}
	}
	return nil
}

func parseSpecItem(text, file string, line int, db *SpecDB) (err error) {
	defer func() {
		if r := recover(); r != nil {
			if pe, ok := r.(parseErr); ok {
				err = fmt.Errorf("%s:%d: %s", file, line, string(pe))
				return
			}
			panic(r)
		}
	}()
	kw := text[:strings.IndexAny(text, " \t")]
	rest := strings.TrimSpace(text[len(kw):])
	switch kw {
	case "spec", "ufun":
		// spec name(params) ret = body
		head := rest
		body := ""
		if kw == "spec" {
			i := strings.Index(rest, "=")
			// find the first '=' that is not part of ==, <=, >=, != and at paren depth 0
			depth := 0
			i = -1
			for k := 0; k < len(rest); k++ {
				switch rest[k] {
				case '(':
					depth++
				case ')':
					depth--
				case '=':
					if depth == 0 && i < 0 {
						if k+1 < len(rest) && rest[k+1] == '=' {
							k++
							continue
						}
						if k > 0 && strings.ContainsRune("<>!=", rune(rest[k-1])) {
							continue
						}
						i = k
					}
				}
			}
			if i < 0 {
				return fmt.Errorf("%s:%d: spec without body", file, line)
			}
			head, body = strings.TrimSpace(rest[:i]), strings.TrimSpace(rest[i+1:])
		}
		toks, err := lex(head)
		if err != nil {
			return err
		}
		ps := &parser{toks: toks, src: head}
		name := ps.next().s
		params := parseParams(ps)
		ret := ps.typ()
		sf := &SpecFunc{Name: name, Params: params, Ret: ret, Src: text}
		for ps.isId("unfold") || ps.isId("specialize") {
			if ps.next().s == "unfold" {
				sf.Unfold = ps.next().s
			} else {
				sf.Special = ps.next().s
			}
		}
		if kw == "spec" {
			e, err := parseExpr(body)
			if err != nil {
				return fmt.Errorf("%s:%d: %v", file, line, err)
			}
			sf.Body = e
		} else {
			sf.Uninter = true
		}
		if _, dup := db.Funcs[name]; dup {
			return fmt.Errorf("%s:%d: duplicate spec %s", file, line, name)
		}
		db.Funcs[name] = sf
		db.Order = append(db.Order, name)
	case "axiom":
		// axiom name: expr [by "..."]
		i := strings.Index(rest, ":")
		name := strings.TrimSpace(rest[:i])
		body := strings.TrimSpace(rest[i+1:])
		by := ""
		if j := strings.LastIndex(body, "\nby "); j >= 0 {
			by = strings.TrimSpace(body[j+4:])
			body = body[:j]
		}
		c, err := mkClause(body, rawLine{body, file, line})
		if err != nil {
			return err
		}
		db.Axioms = append(db.Axioms, NamedAxiom{name, c, by})
	case "lemma":
		// lemma name(params) \n requires E \n ensures E \n induction k
		ls := strings.Split(rest, "\n")
		toks, err := lex(ls[0])
		if err != nil {
			return err
		}
		ps := &parser{toks: toks, src: ls[0]}
		name := ps.next().s
		params := parseParams(ps)
		lm := &Lemma{Name: name, Params: params}
		var raws []rawLine
		for _, l := range ls[1:] {
			raws = append(raws, rawLine{l, file, line})
		}
		for _, l := range joinLemmaClauses(raws) {
			t := l.text
			k := strings.IndexAny(t, " \t")
			kw2, r2 := t, ""
			if k >= 0 {
				kw2, r2 = t[:k], strings.TrimSpace(t[k+1:])
			}
			switch kw2 {
			case "requires", "ensures", "use":
				c, err := mkClause(r2, l)
				if err != nil {
					return err
				}
				if kw2 == "requires" {
					lm.Requires = append(lm.Requires, c)
				} else if kw2 == "ensures" {
					lm.Ensures = append(lm.Ensures, c)
				} else {
					lm.Uses = append(lm.Uses, c)
				}
			case "fuel":
				fmt.Sscanf(r2, "%d", &lm.Fuel)
			case "induction":
				f := strings.Fields(r2)
				lm.Induction = f[0]
				if len(f) == 3 && f[1] == "by" {
					lm.Step = f[2]
				} else if len(f) != 1 {
					return fmt.Errorf("%s:%d: expected `induction k [by P]`", file, line)
				}
			case "lifted":
				lm.Lifted = r2
			case "trusted":
				lm.Trusted = r2
			default:
				return fmt.Errorf("%s:%d: unknown lemma clause %q", file, line, kw2)
			}
		}
		db.Lemmas[name] = lm
	}
	return nil
}

func joinLemmaClauses(lines []rawLine) []rawLine {
	kws := map[string]bool{"requires": true, "ensures": true, "induction": true, "trusted": true, "use": true, "fuel": true, "lifted": true}
	var out []rawLine
	for _, l := range lines {
		t := strings.TrimSpace(l.text)
		if t == "" {
			continue
		}
		first := t
		if i := strings.IndexAny(t, " \t"); i >= 0 {
			first = t[:i]
		}
		if kws[first] || len(out) == 0 {
			out = append(out, rawLine{t, l.file, l.line})
		} else {
			out[len(out)-1].text += " " + t
		}
	}
	return out
}
