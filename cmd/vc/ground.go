package main

// Ground obligations decided by exact big-rational evaluation (no solver): the longest-run class probabilities
// of the `parameters` table against the exact combinatorial values, to the table's printed precision (C02).

import (
	"fmt"
	"go/ast"
	"go/token"
	"math/big"
	"strconv"
	"strings"
)

// noRunLonger[n] = number of n-bit strings whose longest run of ones is <= L
func countMaxRunLE(m, L int) *big.Int {
	a := make([]*big.Int, m+1)
	for n := 0; n <= m; n++ {
		if n <= L {
			a[n] = new(big.Int).Lsh(big.NewInt(1), uint(n))
			continue
		}
		s := new(big.Int)
		for j := 1; j <= L+1; j++ {
			s.Add(s, a[n-j])
		}
		a[n] = s
	}
	return a[m]
}

func (e *Engine) groundLongestRunTable() []*Obligation {
	p := e.pkgs["randomness"]
	var out []*Obligation
	mk := func(name, src string, ok bool, detail string) {
		o := &Obligation{Name: "randomness.parameters/ground/" + name, Class: "ground", Func: "randomness.parameters", Src: src, Solver: "exact-rational", Expect: "unsat"}
		if ok {
			o.Status = "discharged"
		} else {
			o.Status = "failed"
			o.Output = detail
		}
		out = append(out, o)
	}
	if p == nil {
		return out
	}
	var lit *ast.CompositeLit
	for _, f := range p.Syntax {
		for _, d := range f.Decls {
			gd, ok := d.(*ast.GenDecl)
			if !ok || gd.Tok != token.VAR {
				continue
			}
			for _, sp := range gd.Specs {
				vs := sp.(*ast.ValueSpec)
				for i, n := range vs.Names {
					if n.Name == "parameters" && i < len(vs.Values) {
						lit, _ = vs.Values[i].(*ast.CompositeLit)
					}
				}
			}
		}
	}
	if lit == nil {
		mk("table", "the parameters table exists", false, "package-level table `parameters` not found")
		return out
	}
	want := []struct{ m, k, start int }{{8, 3, 1}, {128, 5, 4}, {10000, 6, 10}}
	if len(lit.Elts) != len(want) {
		mk("table", "three regimes", false, fmt.Sprintf("%d entries", len(lit.Elts)))
		return out
	}
	for r, el := range lit.Elts {
		cl, ok := el.(*ast.CompositeLit)
		if !ok {
			continue
		}
		var pis []string
		vals := map[string]int{}
		for _, kv := range cl.Elts {
			kve, ok := kv.(*ast.KeyValueExpr)
			if !ok {
				continue
			}
			key := kve.Key.(*ast.Ident).Name
			switch v := kve.Value.(type) {
			case *ast.BasicLit:
				n, _ := strconv.Atoi(v.Value)
				vals[key] = n
			case *ast.CompositeLit:
				for _, x := range v.Elts {
					if bl, ok := x.(*ast.BasicLit); ok {
						pis = append(pis, bl.Value)
					}
				}
			}
		}
		w := want[r]
		mk(fmt.Sprintf("regime[%d]", r), fmt.Sprintf("regime %d: block length %d, K = %d, first class <= %d, %d probabilities", r, w.m, w.k, w.start, w.k+1),
			vals["m"] == w.m && vals["k"] == w.k && vals["startV"] == w.start && len(pis) == w.k+1,
			fmt.Sprintf("m=%d k=%d startV=%d len(pi)=%d", vals["m"], vals["k"], vals["startV"], len(pis)))
		if len(pis) != w.k+1 {
			continue
		}
		total := new(big.Int).Lsh(big.NewInt(1), uint(w.m))
		for j, txt := range pis {
			// class j: longest run <= start (j = 0), == start+j (0 < j < K), >= start+K (j = K)
			var num *big.Int
			switch {
			case j == 0:
				num = countMaxRunLE(w.m, w.start)
			case j < w.k:
				num = new(big.Int).Sub(countMaxRunLE(w.m, w.start+j), countMaxRunLE(w.m, w.start+j-1))
			default:
				num = new(big.Int).Sub(total, countMaxRunLE(w.m, w.start+w.k-1))
			}
			exact := new(big.Rat).SetFrac(num, total)
			digits := 0
			if i := strings.Index(txt, "."); i >= 0 {
				digits = len(txt) - i - 1
			}
			got, _ := new(big.Rat).SetString(txt)
			scale := new(big.Rat).SetInt(new(big.Int).Exp(big.NewInt(10), big.NewInt(int64(digits)), nil))
			// |exact - literal| <= 0.5 * 10^-digits  (the literal is the exact value rounded to its printed precision)
			diff := new(big.Rat).Sub(exact, got)
			diff.Abs(diff)
			diff.Mul(diff, scale)
			ok := diff.Cmp(big.NewRat(1, 2)) <= 0
			mk(fmt.Sprintf("pi[%d][%d]", r, j), fmt.Sprintf("parameters[%d].pi[%d] = %s is the exact class probability (m=%d) rounded to %d digits", r, j, txt, w.m, digits), ok,
				fmt.Sprintf("exact value %s", exact.FloatString(digits+4)))
		}
	}
	return out
}
