package main

import (
	"fmt"
	"go/ast"
	"go/printer"
	"go/token"
	"go/types"
	"io"
	"math/big"
	"os"
	"path/filepath"
	"sort"
	"strings"

	"golang.org/x/tools/go/packages"
)

type Engine struct {
	fset      *token.FileSet
	pkgs      map[string]*packages.Package // by package name
	pkgByPath map[string]*packages.Package
	modPath   string
	repo      string

	specs      *SpecDB
	specConsts map[string]Term
	contracts  map[string]*FuncContract // "pkg.Func" / "pkg.Recv.Method"
	decls      map[string]*ast.FuncDecl
	declPkg    map[string]*packages.Package

	counter      int
	globalDecls  []string
	globalSeen   map[string]bool
	strs         map[string]Term
	strList      []string
	fls          map[string]Term
	flList       []string
	fns          map[string]Term
	fnList       []string
	fnObjs       map[string]*types.Func
	addrs        map[types.Object]Term
	heapElemSort map[string]string
	usedSpecs    map[string]bool
	notes        map[string][]string
	trusted      map[string]bool
	assumed      map[string]bool
	globalInit   map[*types.Var]*globalInfo
	globalConst  map[*types.Var]Term
	realSpecMemo map[string]bool
	usedAxioms   map[string]string
	recMemo      map[string]bool
	extVars      map[string]int
	curFuel      int
	usedLemmas   map[string]bool
	liftDone     map[string]bool // lifted lemmas whose obligations were generated in this run
	orphans      map[string]string // contracts whose function no longer exists
	localsSnap   map[string][]string // declared names per function as of the tree the contracts were written for (locals.json)
	appliedContracts map[string]bool // contracts applied at some call site in this run
	curProp      string            // property being checked ("": all tagged clauses active)
}

type globalInfo struct {
	val   Value
	defs  []Hyp
	facts []globalFact
	end   int64
}

type globalFact struct {
	key, es string
	ref     Term
	arr     Term
}

func printerFprint(w io.Writer, fset *token.FileSet, n ast.Node) error {
	return printer.Fprint(w, fset, n)
}

func NewEngine(repo string) (*Engine, error) { return NewEngineOverlay(repo, nil) }

// NewEngineOverlay loads the repository with in-memory replacements of some files (self-test canaries).
func NewEngineOverlay(repo string, overlay map[string][]byte) (*Engine, error) {
	e := &Engine{repo: repo, pkgs: map[string]*packages.Package{}, pkgByPath: map[string]*packages.Package{},
		contracts: map[string]*FuncContract{}, decls: map[string]*ast.FuncDecl{}, declPkg: map[string]*packages.Package{},
		globalSeen: map[string]bool{}, strs: map[string]Term{}, fls: map[string]Term{}, fns: map[string]Term{}, fnObjs: map[string]*types.Func{},
		addrs: map[types.Object]Term{}, heapElemSort: map[string]string{}, usedSpecs: map[string]bool{}, notes: map[string][]string{},
		trusted: map[string]bool{}, assumed: map[string]bool{}, globalInit: map[*types.Var]*globalInfo{}, globalConst: map[*types.Var]Term{},
		specConsts: map[string]Term{}, realSpecMemo: map[string]bool{}, usedAxioms: map[string]string{}, recMemo: map[string]bool{}, extVars: map[string]int{}, usedLemmas: map[string]bool{}, liftDone: map[string]bool{}, orphans: map[string]string{}, appliedContracts: map[string]bool{}}
	e.fset = token.NewFileSet()
	cfg := &packages.Config{
		Mode: packages.NeedName | packages.NeedFiles | packages.NeedSyntax | packages.NeedTypes | packages.NeedTypesInfo | packages.NeedImports | packages.NeedDeps | packages.NeedModule,
		Dir:  repo, Fset: e.fset, BuildFlags: []string{"-tags=verif"}, Overlay: overlay,
		Env: append(os.Environ(), "GOFLAGS=-mod=mod", "GOPROXY=off", "GOSUMDB=off", "GOTOOLCHAIN=local"),
	}
	pkgs, err := packages.Load(cfg, "./...")
	if err != nil {
		return nil, err
	}
	for _, p := range pkgs {
		if len(p.Errors) > 0 {
			return nil, fmt.Errorf("package %s does not type-check: %v", p.PkgPath, p.Errors[0])
		}
		name := p.Name
		if name == "main" {
			name = filepath.Base(p.PkgPath)
		}
		e.pkgs[name] = p
		e.pkgByPath[p.PkgPath] = p
		if p.Module != nil {
			e.modPath = p.Module.Path
		}
		for _, f := range p.Syntax {
			for _, d := range f.Decls {
				fd, ok := d.(*ast.FuncDecl)
				if !ok || fd.Body == nil {
					continue
				}
				obj := p.TypesInfo.Defs[fd.Name].(*types.Func)
				k := e.keyOf(obj)
				e.decls[k] = fd
				e.declPkg[k] = p
			}
		}
	}
	e.initHeapSorts()
	e.specConsts["MaxBits"] = BigInt(new(big.Int).Lsh(big.NewInt(1), 40))
	return e, nil
}

func (e *Engine) initHeapSorts() {
	for k, v := range map[string]string{"bool": SBool, "byte": SInt, "int": SInt, "int32": SInt, "int64": SInt, "f64": SReal, "c128": SCx, "str": SStr, "fn": SFn} {
		e.heapElemSort[k] = v
	}
}

// keyOf: like funcKey but main packages are named by their directory.
func (e *Engine) keyOf(f *types.Func) string {
	k := funcKey(f)
	if f.Pkg() != nil && f.Pkg().Name() == "main" {
		k = filepath.Base(f.Pkg().Path()) + k[len("main"):]
	}
	return k
}

func (e *Engine) pkgName(p *packages.Package) string {
	if p.Name == "main" {
		return filepath.Base(p.PkgPath)
	}
	return p.Name
}

// LoadContracts reads //@ lines from the verif-tagged comment-only files of every package.
func (e *Engine) LoadContracts() error {
	for _, p := range e.pkgs {
		for _, f := range p.Syntax {
			fname := e.fset.Position(f.Pos()).Filename
			if !strings.HasSuffix(fname, "verif_contracts.go") {
				continue
			}
			if len(f.Decls) != 0 {
				return fmt.Errorf("%s: contract files must be comment-only", fname)
			}
			var lines []rawLine
			for _, cg := range f.Comments {
				for _, c := range cg.List {
					t := c.Text
					if !strings.HasPrefix(t, "//@") {
						continue
					}
					lines = append(lines, rawLine{strings.TrimPrefix(t, "//@"), fname, e.fset.Position(c.Pos()).Line})
				}
			}
			cs, err := parseContractLines(lines, e.pkgName(p))
			if err != nil {
				return err
			}
			for _, c := range cs {
				key := e.pkgName(p) + "." + c.Name
				if _, dup := e.contracts[key]; dup {
					return fmt.Errorf("duplicate contract for %s", key)
				}
				if _, ok := e.decls[key]; !ok {
					// reported by the checks that depend on this function (callers fail on "no contract"/"unknown callee",
					// properties that name it or sweep its package report it); other properties are not affected
					e.orphans[key] = fmt.Sprintf("%s:%d: contract for %s but no such function in the code (contract/code mismatch)", c.File, c.Line, key)
					continue
				}
				e.contracts[key] = c
			}
		}
	}
	return nil
}

func (e *Engine) LoadSpecs(dir string) error {
	e.specs = &SpecDB{Funcs: map[string]*SpecFunc{}, Lemmas: map[string]*Lemma{}}
	files, _ := filepath.Glob(filepath.Join(dir, "*.spec"))
	sort.Strings(files)
	for _, f := range files {
		b, err := os.ReadFile(f)
		if err != nil {
			return err
		}
		if err := parseSpecFile(string(b), f, e.specs); err != nil {
			return err
		}
	}
	return nil
}

func (e *Engine) note(fn, msg string) {
	for _, m := range e.notes[fn] {
		if m == msg {
			return
		}
	}
	e.notes[fn] = append(e.notes[fn], msg)
}
func (e *Engine) trust(path string)  { e.trusted[path] = true }
func (e *Engine) assume(msg string)  { e.assumed[msg] = true }
func (e *Engine) useSpec(name string) { e.usedSpecs[name] = true }

func (e *Engine) declareGlobal(line string) {
	if !e.globalSeen[line] {
		e.globalSeen[line] = true
		e.globalDecls = append(e.globalDecls, line)
	}
}

func (e *Engine) declareFun(name string, args []string, res string) {
	e.declareGlobal(fmt.Sprintf("(declare-fun %s (%s) %s)", name, strings.Join(args, " "), res))
}

// absApp builds an uninterpreted application whose symbol is mangled by argument sorts.
func (e *Engine) absApp(name string, args []Term, res string) Term {
	var sorts []string
	mangled := name + "__"
	for _, a := range args {
		sorts = append(sorts, a.Sort)
		mangled += sortTag(a.Sort)
	}
	mangled = symSan.ReplaceAllString(mangled, "_")
	if res == SFl {
		mangled += "_u"
	}
	e.declareFun(mangled, sorts, res)
	return App(res, mangled, args...)
}

func (e *Engine) strConst(s string) Term {
	if t, ok := e.strs[s]; ok {
		return t
	}
	t := Term{fmt.Sprintf("str!%d", len(e.strs)), SStr}
	e.strs[s] = t
	e.strList = append(e.strList, s)
	return t
}

func (e *Engine) flConst(r *big.Rat) Term {
	k := r.RatString()
	if t, ok := e.fls[k]; ok {
		return t
	}
	t := Term{fmt.Sprintf("fl!%d", len(e.fls)), SFl}
	e.fls[k] = t
	e.flList = append(e.flList, k)
	return t
}

func (e *Engine) fnConst(f *types.Func) Term {
	k := e.keyOf(f)
	if f.Pkg() != nil && !strings.HasPrefix(f.Pkg().Path(), e.modPath) {
		k = funcPath(f)
	}
	if t, ok := e.fns[k]; ok {
		return t
	}
	t := Term{"fn_" + symSan.ReplaceAllString(k, "_"), SFn}
	e.fns[k] = t
	e.fnList = append(e.fnList, k)
	e.fnObjs[t.S] = f
	return t
}

func (e *Engine) lookupFunc(x *Exec, env *SpecEnv, name string) *types.Func {
	// qualified pkg.Name
	if i := strings.Index(name, "."); i > 0 {
		if p, ok := e.pkgs[name[:i]]; ok {
			if fo, ok := p.Types.Scope().Lookup(name[i+1:]).(*types.Func); ok {
				return fo
			}
		}
		// Type.Method in current pkg
	}
	try := []string{}
	if env != nil && env.calleePkg != "" {
		try = append(try, env.calleePkg)
	}
	if x != nil {
		try = append(try, e.pkgName(x.pkg))
	}
	for _, pn := range try {
		if p, ok := e.pkgs[pn]; ok {
			if fo, ok := p.Types.Scope().Lookup(name).(*types.Func); ok {
				return fo
			}
		}
	}
	// any package (unique)
	var found *types.Func
	for _, p := range e.pkgs {
		if fo, ok := p.Types.Scope().Lookup(name).(*types.Func); ok {
			if found != nil {
				fail("spec: function name %s is ambiguous; qualify it", name)
			}
			found = fo
		}
	}
	return found
}

func (e *Engine) fnConstByName(x *Exec, env *SpecEnv, name string) Term {
	fo := e.lookupFunc(x, env, name)
	if fo == nil {
		fail("spec: fn(%s): no such function", name)
	}
	return e.fnConst(fo)
}

// fnResultType: result type for app() on a function term; known only for TestFunc / round signatures via constants.
func (e *Engine) fnResultType(f Term, k int) types.Type {
	if fo, ok := e.fnObjs[f.S]; ok {
		return fo.Type().(*types.Signature).Results().At(k).Type()
	}
	// unknown function value: assume the runner / round shapes by sort of use; resolved lazily by field access
	rp := e.pkgs["randomness"]
	if rp != nil {
		if tn, ok := rp.Types.Scope().Lookup("TestResult").(*types.TypeName); ok {
			return types.NewPointer(tn.Type())
		}
	}
	return nil
}

func (e *Engine) addrOf(x *Exec, obj types.Object) Term {
	if t, ok := e.addrs[obj]; ok {
		return t
	}
	t := Term{fmt.Sprintf("addr_%s_%d", symSan.ReplaceAllString(obj.Name(), "_"), len(e.addrs)+1), SInt}
	e.addrs[obj] = t
	e.declareGlobal(fmt.Sprintf("(declare-fun %s () Int)", t.S))
	e.declareGlobal(fmt.Sprintf("(assert (= %s %d))", t.S, 1000000+len(e.addrs)))
	return t
}

// pkgLevel resolves a package-level identifier (constant / variable) of the callee's or current package.
func (e *Engine) pkgLevel(x *Exec, env *SpecEnv, name string) (Value, bool) {
	var pkgsToTry []*packages.Package
	if env.calleePkg != "" {
		if p, ok := e.pkgs[env.calleePkg]; ok {
			pkgsToTry = append(pkgsToTry, p)
		}
	}
	pkgsToTry = append(pkgsToTry, x.pkg)
	if p, ok := e.pkgs["randomness"]; ok {
		pkgsToTry = append(pkgsToTry, p)
	}
	qual := ""
	if i := strings.Index(name, "."); i > 0 {
		qual, name = name[:i], name[i+1:]
		if p, ok := e.pkgs[qual]; ok {
			pkgsToTry = []*packages.Package{p}
		}
	}
	for _, p := range pkgsToTry {
		obj := p.Types.Scope().Lookup(name)
		switch o := obj.(type) {
		case *types.Const:
			v, ok := x.namedConstTerm(o)
			return v, ok
		case *types.Var:
			return e.globalVar(x, env.st, o), true
		case *types.Func:
			return FuncV{T: e.fnConst(o), Obj: o}, true
		}
	}
	return nil, false
}

// globalVar: value of a package-level variable. Tables with composite-literal initialisers
// (TestMethodArr, parameters) are evaluated once; their immutability is an obligation elsewhere (C18).
func (e *Engine) globalVar(x *Exec, st *State, o *types.Var) Value {
	if v, ok := st.vars[o]; ok {
		return v
	}
	// find initialiser
	p := e.pkgByPath[o.Pkg().Path()]
	if p == nil {
		// variable of a package outside the repository (io.EOF, io.ErrUnexpectedEOF, crypto/rand.Reader, os.Stderr ...):
		// an opaque non-nil constant, distinct per variable
		name := "ext_" + symSan.ReplaceAllString(o.Pkg().Path()+"_"+o.Name(), "_")
		if _, ok := e.extVars[name]; !ok {
			e.extVars[name] = len(e.extVars) + 1
			e.declareGlobal(fmt.Sprintf("(declare-fun %s () Int)", name))
			e.declareGlobal(fmt.Sprintf("(assert (= %s %d))", name, 2000000+len(e.extVars)))
		}
		v := OpaqueV{T: Term{name, SInt}, Typ: o.Type()}
		st.vars[o] = v
		return v
	}
	var initExpr ast.Expr
	if p != nil {
		for _, iz := range p.TypesInfo.InitOrder {
			if len(iz.Lhs) == 1 && iz.Lhs[0] == o {
				initExpr = iz.Rhs
			}
		}
	}
	if cl, ok := initExpr.(*ast.CompositeLit); ok {
		gi := e.globalInit[o]
		if gi == nil {
			gi = e.evalGlobalInit(p, o, cl)
			e.globalInit[o] = gi
		}
		for _, d := range gi.defs {
			st.assume(d.T, "global-init-def:"+o.Name())
		}
		for _, f := range gi.facts {
			h := x.declareOnce("H_"+f.key+"_0", HeapSort(f.es))
			st.assume(Eq(Select(h, f.ref), f.arr), "global-init:"+o.Name())
		}
		st.assume(Cmp(">", x.alloc0, Int(gi.end)), "global-init:"+o.Name())
		st.vars[o] = gi.val
		return gi.val
	}
	// plain global (flags etc.): an unconstrained entry value
	name := "g_" + symSan.ReplaceAllString(e.pkgName(p)+"_"+o.Name(), "_")
	var v Value
	switch u := o.Type().Underlying().(type) {
	case *types.Basic:
		t := x.declareOnce(name, x.modeSort(scalarSort(o.Type())))
		v = sc(t)
		_ = u
	default:
		fail("package-level variable %s of type %s not in subset", o.Name(), o.Type())
	}
	st.vars[o] = v
	return v
}

var globalRefBase int64 = 1

func (e *Engine) evalGlobalInit(p *packages.Package, o *types.Var, cl *ast.CompositeLit) *globalInfo {
	decls := []string{}
	x := &Exec{eng: e, pkg: p, key: "init." + o.Name(), decls: &decls, declared: map[string]bool{}, oblNames: map[string]int{}, mode: "R"}
	st := &State{vars: map[types.Object]Value{}, heaps: map[string]Term{}, fheaps: map[string]Term{}, ghost: map[string]Term{}, alloc: Int(globalRefBase)}
	x.alloc0 = Int(0)
	x.pre = st
	v := x.evalComposite(st, cl, false)
	end, _ := intLit(st.alloc)
	gi := &globalInfo{val: v, end: end.Int64()}
	gi.defs = append(gi.defs, st.pc...)
	for _, d := range decls {
		f := strings.Fields(d)
		if len(f) >= 2 && strings.HasPrefix(f[1], "H_") && strings.HasSuffix(f[1], "_0") {
			continue // entry heaps are declared by the function under verification
		}
		e.declareGlobal(d)
	}
	for _, key := range sortedKeys(st.heaps) {
		h := st.heaps[key]
		es := elemOfArr(elemOfArr(h.Sort))
		e.heapElemSort[key] = es
		for r := globalRefBase; r < end.Int64(); r++ {
			gi.facts = append(gi.facts, globalFact{key, es, Int(r), Select(h, Int(r))})
		}
	}
	globalRefBase = end.Int64()
	return gi
}

func (e *Engine) globalStore(x *Exec, st *State, o *types.Var, v Value, at ast.Node) {
	if _, isTable := o.Type().Underlying().(*types.Slice); isTable {
		x.oblige(st, "frame", "frame/global", TFalse, at.Pos(), "package-level table "+o.Name()+" is never assigned")
	}
	st.vars[o] = v
}

// specUsesReal: does the spec function (transitively) involve the real type (needs a _u twin in U-mode)
func (e *Engine) specUsesReal(name string) bool {
	if v, ok := e.realSpecMemo[name]; ok {
		return v
	}
	e.realSpecMemo[name] = false
	sf := e.specs.Funcs[name]
	res := false
	if sf != nil {
		if strings.Contains(sf.Ret, "real") {
			res = true
		}
		for _, p := range sf.Params {
			if strings.Contains(p.Type, "real") {
				res = true
			}
		}
	}
	e.realSpecMemo[name] = res
	return res
}

func (e *Engine) funcObjByKey(key string) *types.Func {
	fd := e.decls[key]
	p := e.declPkg[key]
	if fd == nil || p == nil {
		return nil
	}
	fo, _ := p.TypesInfo.Defs[fd.Name].(*types.Func)
	return fo
}

// tagActive: a clause tagged {C07,C08} is used (checked and assumed) only by the checks of those properties; every other
// check proves its own obligations without it, so a change that breaks only that clause alarms only those properties.
func (e *Engine) tagActive(tag string) bool {
	if tag == "" || e.curProp == "" {
		return true
	}
	for _, t := range strings.Split(tag, ",") {
		if t == e.curProp {
			return true
		}
	}
	return false
}
