package main

// Trusted contracts for functions outside the repository. Every entry used in a run is
// reported in the evidence (trusted_base).

import (
	"fmt"
	"go/ast"
	"go/types"
	"math/big"
	"strings"
)

func (x *Exec) realFn(name string, args ...Term) Term {
	if x.mode == "U" {
		return App(SFl, name+"_u", args...) // the U-mode rendering of the spec-level function of that name
	}
	return App(SReal, name, args...)
}

func (x *Exec) callExternal(st *State, call *ast.CallExpr, callee *types.Func, path string, recv Value) []Value {
	x.eng.trust(path)
	args := func() []Value { return x.evalArgs(st, call.Args) }
	f64 := func(v Value) Term { return asTerm(x.convertAssign(v, types.Typ[types.Float64])) }
	switch path {
	case "math.Sqrt":
		a := f64(args()[0])
		if x.mode != "U" {
			x.check(st, "fp", "safe/fp/sqrt", Cmp(">=", a, RatTerm(new(big.Rat))), call.Pos(), "sqrt argument >= 0")
		}
		return []Value{sc(x.realFn("sqrtR", a))}
	case "math.Log":
		a := f64(args()[0])
		if x.mode != "U" {
			x.check(st, "fp", "safe/fp/log", Cmp(">", a, RatTerm(new(big.Rat))), call.Pos(), "log argument > 0")
		}
		return []Value{sc(x.realFn("lnR", a))}
	case "math.Exp":
		return []Value{sc(x.realFn("expR", f64(args()[0])))}
	case "math.Erfc":
		return []Value{sc(x.realFn("erfcR", f64(args()[0])))}
	case "math.Erf":
		return []Value{sc(x.realFn("erfR", f64(args()[0])))}
	case "math.Abs":
		a := f64(args()[0])
		if x.mode == "U" {
			return []Value{sc(App(SFl, "absR_u", a))}
		}
		return []Value{sc(App(SReal, "absR", a))}
	case "math.Min":
		as := args()
		a, b := f64(as[0]), f64(as[1])
		if x.mode == "U" {
			return []Value{sc(App(SFl, "u_min", a, b))}
		}
		return []Value{sc(App(SReal, "minR", a, b))}
	case "math.Ceil":
		a := f64(args()[0])
		if x.mode == "U" {
			return []Value{sc(App(SFl, "u_ceil", a))}
		}
		return []Value{sc(App(SReal, "ceilR", a))}
	case "math.Round":
		a := f64(args()[0])
		if x.mode == "U" {
			return []Value{sc(App(SFl, "u_round", a))}
		}
		return []Value{sc(App(SReal, "roundR", a))}
	case "math.Trunc":
		a := f64(args()[0])
		return []Value{sc(ToReal(App(SInt, "truncR", a)))}
	case "math.Floor":
		a := f64(args()[0])
		if x.mode == "U" {
			return []Value{sc(App(SFl, "u_floor", a))}
		}
		return []Value{sc(App(SReal, "floorR", a))}
	case "math.Pow":
		as := args()
		a, b := f64(as[0]), f64(as[1])
		if x.mode != "U" {
			if r, ok := realLit(b); ok && r.IsInt() && r.Num().IsInt64() && r.Num().Int64() == 2 {
				return []Value{sc(Mul(a, a))}
			}
		}
		return []Value{sc(x.realFn("powR", a, b))}
	case "math.Lgamma":
		a := f64(args()[0])
		return []Value{sc(x.realFn("lgammaR", a)), sc(x.fresh("lgamma_sign", SInt))}
	case "math.Sincos":
		a := f64(args()[0])
		return []Value{sc(x.realFn("sinR", a)), sc(x.realFn("cosR", a))}
	case "math/bits.OnesCount8":
		a := asTerm(args()[0])
		return []Value{sc(App(SInt, "popcount8", a))}
	case "math/cmplx.Abs":
		a := asTerm(args()[0])
		if x.mode == "U" {
			return []Value{sc(App(SFl, "u_cabs", a))}
		}
		return []Value{sc(App(SReal, "cabs", a))}
	case "io.ReadFull":
		as := args()
		return x.readModel(st, call, as[0], as[1].(SliceV), true)
	case "fmt.Errorf", "errors.New":
		as := args()
		e := x.fresh("err", SInt)
		st.assume(Cmp(">", e, Int(0)), "error-nonnil")
		st.assume(Eq(App(SStr, "err-fmt", e), asTerm(as[0])), "errorf")
		for i, a := range as[1:] {
			if s, ok := a.(Scalar); ok && s.T.Sort == SStr {
				st.assume(Eq(App(SStr, fmt.Sprintf("err-arg%d", i), e), s.T), "errorf")
			}
		}
		return []Value{OpaqueV{T: e, Typ: callee.Type().(*types.Signature).Results().At(0).Type()}}
	case "fmt.Sprintf":
		as := args()
		ts := []Term{}
		for _, a := range as {
			switch v := a.(type) {
			case Scalar:
				ts = append(ts, v.T)
			case OpaqueV:
				ts = append(ts, v.T)
			}
		}
		name := fmt.Sprintf("sprintf%d", len(ts))
		var sorts []string
		for _, t := range ts {
			sorts = append(sorts, t.Sort)
			name += "_" + sortTag(t.Sort)
		}
		_ = name
		x.eng.declareFun(name, sorts, SStr)
		return []Value{sc(App(SStr, name, ts...))}
	case "fmt.Println", "fmt.Printf", "fmt.Print", "fmt.Fprint", "fmt.Fprintf", "fmt.Fprintln",
		"log.Printf", "log.Println", "log.Print", "log.SetPrefix":
		args()
		sig := callee.Type().(*types.Signature)
		var out []Value
		for i := 0; i < sig.Results().Len(); i++ {
			out = append(out, x.freshResult(st, sig.Results().At(i).Type(), "io_r", st.alloc))
		}
		return out
	case "flag.Parse":
		return nil
	case "runtime.NumCPU":
		n := x.declareOnce("numcpu", SInt) // constant for the life of the process
		st.assume(Cmp(">=", n, Int(1)), "NumCPU>=1")
		return []Value{sc(n)}
	case "sync/atomic.AddInt32":
		as := args()
		ae, ok := as[0].(addrOfElem)
		if !ok {
			fail("atomic.AddInt32 on non-element address at %s", x.pos(call.Pos()))
		}
		b := ae.base.(SliceV)
		x.check(st, "safe", "safe/index", And(Cmp("<=", Int(0), ae.idx), Cmp("<", ae.idx, b.Len)), call.Pos(), exprStr(x.eng.fset, ae.at))
		key, _ := heapKey(b.Elem)
		x.check(st, "frame", "frame/mod", x.frameOK(st, b.Ref, key), call.Pos(), "atomic add target within modifies")
		old := asTerm(x.readElem(st, b, ae.idx))
		nv := Add(old, asTerm(as[1]))
		x.writeElem(st, b, ae.idx, sc(nv))
		return []Value{sc(nv)}
	case "sync.*WaitGroup.Add":
		as := args()
		cur := x.ghostGet(st, "added", recv, SInt)
		x.ghostSet(st, "added", recv, Add(cur, asTerm(as[0])))
		return nil
	case "sync.*WaitGroup.Done":
		cur := x.ghostGet(st, "done", recv, SInt)
		x.ghostSet(st, "done", recv, Add(cur, Int(1)))
		return nil
	case "sync.*WaitGroup.Wait":
		x.ghostBump(st, "waited", recv)
		x.eng.assume("M1 (pool): Wait returns once every job's Done ran; effects of worker iterations are taken from the pool contract")
		x.afterWait(st, call, recv)
		return nil
	case "sync.*Mutex.Lock":
		x.ghostSet(st, "locked", recv, TTrue)
		return nil
	case "sync.*Mutex.Unlock":
		x.ghostSet(st, "locked", recv, TFalse)
		return nil
	case "io/ioutil.ReadFile", "os.ReadFile":
		as := args()
		// file content as a function of the name (ghost file system, read-only here)
		name := asTerm(as[0])
		ref := x.allocRef(st)
		n := App(SInt, "fs-len", name)
		st.assume(Cmp(">=", n, Int(0)), "type-inv")
		s := SliceV{Ref: ref, Off: Int(0), Len: n, Cap: n, Elem: types.Typ[types.Uint8]}
		h := x.heap(st, "byte", SInt)
		st.heaps["byte"] = Store(h, ref, App(ArrSort(SInt), "fs-bytes", name))
		e := x.fresh("err", SInt)
		return []Value{s, OpaqueV{T: e, Typ: types.Universe.Lookup("error").Type()}}
	case "path.Base":
		return []Value{sc(App(SStr, "path-base", asTerm(args()[0])))}
	case "path/filepath.Dir":
		return []Value{sc(App(SStr, "path-dir", asTerm(args()[0])))}
	case "path/filepath.Join":
		as := args()
		t := asTerm(as[0])
		for _, a := range as[1:] {
			t = App(SStr, "path-join", t, asTerm(a))
		}
		return []Value{sc(t)}
	case "path/filepath.Abs":
		e := x.fresh("err", SInt)
		return []Value{sc(App(SStr, "path-abs", asTerm(args()[0]))), OpaqueV{T: e, Typ: types.Universe.Lookup("error").Type()}}
	case "os.MkdirAll":
		as := args()
		x.ghostLog(st, "mkdir", asTerm(as[0]))
		return []Value{OpaqueV{T: x.fresh("err", SInt), Typ: types.Universe.Lookup("error").Type()}}
	case "os.OpenFile":
		as := args()
		fh := x.fresh("file", SInt)
		st.assume(Eq(App(SStr, "file-name", fh), asTerm(as[0])), "openfile")
		x.ghostLog(st, "open", asTerm(as[0]))
		if len(as) > 1 {
			x.ghostSet(st, "openflags", OpaqueV{T: Int(0)}, asTerm(as[1])) // flags of the most recent OpenFile (spec: openflags())
		}
		e := x.fresh("err", SInt)
		x.noteOSErr(st, e)
		sig := callee.Type().(*types.Signature)
		return []Value{PtrV{Ref: fh, Elem: sig.Results().At(0).Type().(*types.Pointer).Elem()}, OpaqueV{T: e, Typ: types.Universe.Lookup("error").Type()}}
	case "os.*File.Write":
		as := args()
		b := as[0].(SliceV)
		p := recv.(PtrV)
		x.ghostLog(st, "write", App(SStr, "file-name", p.Ref))
		x.ghostLogInt(st, "writelen", b.Len)
		x.lastWrite = &b
		e := x.fresh("err", SInt)
		x.noteOSErr(st, e)
		return []Value{sc(x.fresh("nw", SInt)), OpaqueV{T: e, Typ: types.Universe.Lookup("error").Type()}}
	case "os.*File.WriteString":
		as := args()
		p := recv.(PtrV)
		x.ghostLog(st, "write", App(SStr, "file-name", p.Ref))
		x.ghostLog(st, "writestr", asTerm(as[0]))
		e := x.fresh("err", SInt)
		x.noteOSErr(st, e)
		return []Value{sc(x.fresh("nw", SInt)), OpaqueV{T: e, Typ: types.Universe.Lookup("error").Type()}}
	case "time.Now":
		return []Value{OpaqueV{T: x.fresh("time", SInt), Typ: callee.Type().(*types.Signature).Results().At(0).Type()}}
	case "time.Since":
		args()
		return []Value{sc(x.fresh("duration", SInt))}
	case "os.*File.Close":
		return []Value{OpaqueV{T: x.fresh("err", SInt), Typ: types.Universe.Lookup("error").Type()}}
	case "os.FileMode":
		return []Value{args()[0]}
	}
	// interface methods
	if strings.HasSuffix(path, "io.Reader.Read") || path == "io.Reader.Read" || (callee.Name() == "Read" && recv != nil) {
		as := args()
		return x.readModel(st, call, recv, as[0].(SliceV), false)
	}
	if callee.Name() == "Write" && recv != nil {
		as := args()
		if b, ok := as[0].(SliceV); ok {
			x.ghostWrite(st, recv, b)
		}
		e := x.fresh("err", SInt)
		return []Value{sc(x.fresh("nw", SInt)), OpaqueV{T: e, Typ: types.Universe.Lookup("error").Type()}}
	}
	// standard-library functions that are deterministic functions of their arguments and write nothing the repository
	// can observe: modelled as uninterpreted functions of (argument values, slice contents and lengths). Sound but
	// uninformative: anything that depends on the value they return stays undecided.
	if recv == nil && pureStdlib(path) {
		sig := callee.Type().(*types.Signature)
		okSig := true
		for i := 0; i < sig.Params().Len(); i++ {
			switch u := sig.Params().At(i).Type().Underlying().(type) {
			case *types.Basic:
			case *types.Slice:
				if _, basic := u.Elem().Underlying().(*types.Basic); !basic {
					okSig = false
				}
			default:
				okSig = false
			}
		}
		for i := 0; i < sig.Results().Len(); i++ {
			if _, basic := sig.Results().At(i).Type().Underlying().(*types.Basic); !basic {
				okSig = false
			}
		}
		if okSig && !sig.Variadic() {
			as := args()
			ats := x.absArgs(st, as)
			var out []Value
			for i := 0; i < sig.Results().Len(); i++ {
				rs := x.modeSort(scalarSort(sig.Results().At(i).Type()))
				name := fmt.Sprintf("ext%d_%s", i, symSan.ReplaceAllString(path, "_"))
				out = append(out, sc(x.eng.absApp(name, ats, rs)))
			}
			x.eng.note(x.key, "call of "+path+" modelled as an uninterpreted deterministic function (no contract for it)")
			return out
		}
	}
	fail("external function %s has no trusted contract (called at %s)", path, x.pos(call.Pos()))
	return nil
}

// readModel is the ghost byte-stream contract of io.Reader.Read / io.ReadFull (DESIGN §2.6).
//
//	Read(p):     0 <= n <= len(p); err == nil ==> (n >= 1 || len(p) == 0);
//	             p[0..n) == stream[pos..pos+n); p[n..) unchanged; pos' = pos + n
//	ReadFull:    err == nil ==> n == len(p) and p == stream[pos..pos+len(p));  err != nil ==> n < len(p);
//	             in both cases p[0..n) == stream[pos..pos+n), pos' = pos + n
func (x *Exec) readModel(st *State, call *ast.CallExpr, src Value, buf SliceV, full bool) []Value {
	pos := x.ghostGet(st, "pos", src, SInt)
	stream := x.streamOf(src)
	n := x.fresh("nread", SInt)
	e := x.fresh("rerr", SInt)
	st.assume(And(Cmp("<=", Int(0), n), Cmp("<=", n, buf.Len), Cmp(">=", e, Int(0))), "read-count")
	if full {
		st.assume(And(Implies(Eq(e, Int(0)), Eq(n, buf.Len)), Implies(Neq(e, Int(0)), Cmp("<", n, buf.Len))), "readfull-contract")
	} else {
		st.assume(Implies(Eq(e, Int(0)), Or(Cmp(">=", n, Int(1)), Eq(buf.Len, Int(0)))), "read-contract")
	}
	key, es := heapKey(buf.Elem)
	x.check(st, "frame", "frame/mod", x.frameOK(st, buf.Ref, key), call.Pos(), "read buffer is fresh or modifiable")
	h := x.heap(st, key, es)
	old := Select(h, buf.Ref)
	na := x.fresh("readbuf", ArrSort(es))
	j := Term{"rd!j", SInt}
	inWin := And(Cmp("<=", buf.Off, j), Cmp("<", j, Add(buf.Off, n)))
	st.assume(Forall([]Term{j}, Eq(Select(na, j), Ite(inWin, Select(stream, Add(pos, Sub(j, buf.Off))), Select(old, j))), []Term{Select(na, j)}), "read-contents")
	st.heaps[key] = Store(h, buf.Ref, na)
	x.ghostSet(st, "pos", src, Add(pos, n))
	// ghost: did any read fail so far
	failed := x.ghostGet(st, "readfailed", src, SBool)
	x.ghostSet(st, "readfailed", src, Or(failed, Neq(e, Int(0))))
	x.ghostBump(st, "reads", src)
	return []Value{sc(n), OpaqueV{T: e, Typ: types.Universe.Lookup("error").Type()}}
}

func (x *Exec) streamOf(src Value) Term {
	return App(ArrSort(SInt), "stream-of", asTerm(src))
}

// noteOSErr: ghost flag "some operating-system call of this function returned an error"
func (x *Exec) noteOSErr(st *State, e Term) {
	none := OpaqueV{T: Int(0)}
	cur := x.ghostGet(st, "oserr", none, SBool)
	x.ghostSet(st, "oserr", none, Or(cur, Neq(e, Int(0))))
}

// pureStdlib: packages / functions of the standard library that neither keep state nor write through their arguments.
func pureStdlib(path string) bool {
	for _, pre := range []string{"math.", "math/bits.", "math/cmplx.", "unicode.", "unicode/utf8.", "strconv.Itoa", "strconv.Quote", "strconv.FormatInt"} {
		if strings.HasPrefix(path, pre) {
			return !strings.HasPrefix(path, "math.rand") // math/rand has a different path, kept for clarity
		}
	}
	switch path {
	case "bytes.Count", "bytes.Equal", "bytes.Compare", "bytes.Contains", "bytes.Index", "bytes.IndexByte", "bytes.LastIndex",
		"bytes.LastIndexByte", "bytes.HasPrefix", "bytes.HasSuffix", "bytes.ContainsAny", "bytes.EqualFold",
		"strings.Count", "strings.Compare", "strings.Contains", "strings.Index", "strings.IndexByte", "strings.LastIndex",
		"strings.HasPrefix", "strings.HasSuffix", "strings.EqualFold", "strings.ToUpper", "strings.ToLower", "strings.TrimSpace",
		"strings.TrimSuffix", "strings.TrimPrefix", "strings.Repeat",
		"sort.SearchInts", "sort.SearchFloat64s", "sort.IntsAreSorted", "sort.Float64sAreSorted",
		"path/filepath.Base", "path/filepath.Ext", "path/filepath.Clean", "path/filepath.IsAbs", "path/filepath.Dir":
		return true
	}
	return false
}
