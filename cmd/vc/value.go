package main

import (
	"fmt"
	"go/types"
	"sort"
	"strings"
)

type Value interface{}

type Scalar struct{ T Term }

// SliceV is a Go slice header. Pre marks a value taken from the function's entry state:
// reads through it use the entry heaps.
type SliceV struct {
	Ref, Off, Len, Cap Term
	Elem               types.Type
	Pre                bool
}

// SeqV is a spec-level (infinite) sequence.
type SeqV struct{ Arr Term }

// ArrayV is a Go fixed-size array held by value.
type ArrayV struct {
	Arr  Term
	N    int64
	Elem types.Type
}

type StructV struct {
	Typ types.Type
	F   map[string]Value
}

type PtrV struct {
	Ref  Term
	Elem types.Type
	Pre  bool
}

type FuncV struct {
	T   Term // sort Fn
	Obj *types.Func
	Lit interface{} // *ast.FuncLit with captured state
}

type TupleV struct{ Vs []Value }

// OpaqueV: readers, channels, wait groups, errors ... identified by an Int.
type OpaqueV struct {
	T   Term
	Typ types.Type
}

func sc(t Term) Scalar { return Scalar{t} }

func asTerm(v Value) Term {
	switch v := v.(type) {
	case Scalar:
		return v.T
	case OpaqueV:
		return v.T
	case PtrV:
		return v.Ref
	case FuncV:
		return v.T
	case SeqV:
		return v.Arr
	case ArrayV:
		return v.Arr
	}
	panic(vcErr(fmt.Sprintf("value %T is not a scalar term", v)))
}

type vcErr string

func (e vcErr) Error() string { return string(e) }

func fail(f string, a ...interface{}) {
	panic(vcErr(fmt.Sprintf(f, a...)))
}

// ---------------------------------------------------------------------------
// Type mapping

// scalarSort returns the SMT sort of a Go type held as a scalar term.
func scalarSort(t types.Type) string {
	switch u := t.Underlying().(type) {
	case *types.Basic:
		switch {
		case u.Info()&types.IsBoolean != 0:
			return SBool
		case u.Info()&types.IsInteger != 0:
			return SInt
		case u.Info()&types.IsFloat != 0:
			return SReal
		case u.Info()&types.IsComplex != 0:
			return SCx
		case u.Info()&types.IsString != 0:
			return SStr
		case u.Kind() == types.UntypedNil:
			return SInt
		}
	case *types.Pointer, *types.Interface, *types.Chan, *types.Map:
		return SInt
	case *types.Signature:
		return SFn
	case *types.Slice:
		return SSl
	}
	fail("no scalar sort for type %s", t)
	return ""
}

func isInt(t types.Type) bool {
	b, ok := t.Underlying().(*types.Basic)
	return ok && b.Info()&types.IsInteger != 0
}
func isFloat(t types.Type) bool {
	b, ok := t.Underlying().(*types.Basic)
	return ok && b.Info()&types.IsFloat != 0
}
func isBool(t types.Type) bool {
	b, ok := t.Underlying().(*types.Basic)
	return ok && b.Info()&types.IsBoolean != 0
}
func isString(t types.Type) bool {
	b, ok := t.Underlying().(*types.Basic)
	return ok && b.Info()&types.IsString != 0
}
func isComplex(t types.Type) bool {
	b, ok := t.Underlying().(*types.Basic)
	return ok && b.Info()&types.IsComplex != 0
}

// intRange gives the value range of a sized integer type (nil,nil for int/int64/uint64: unbounded model).
func intRange(t types.Type) (lo, hi int64, ok bool) {
	b, isb := t.Underlying().(*types.Basic)
	if !isb {
		return 0, 0, false
	}
	switch b.Kind() {
	case types.Uint8:
		return 0, 255, true
	case types.Int8:
		return -128, 127, true
	case types.Uint16:
		return 0, 65535, true
	case types.Int16:
		return -32768, 32767, true
	case types.Int32:
		return -2147483648, 2147483647, true
	case types.Uint32:
		return 0, 4294967295, true
	}
	return 0, 0, false
}

// heapKey names the heap a slice with this element type lives in, and its element sort.
// Struct element types are split per field (key "Type.field").
func heapKey(elem types.Type) (string, string) {
	switch u := elem.Underlying().(type) {
	case *types.Basic:
		switch {
		case u.Info()&types.IsBoolean != 0:
			return "bool", SBool
		case u.Kind() == types.Uint8:
			return "byte", SInt
		case u.Info()&types.IsInteger != 0:
			return strings.ToLower(u.Name()), SInt
		case u.Info()&types.IsFloat != 0:
			return "f64", SReal
		case u.Info()&types.IsComplex != 0:
			return "c128", SCx
		case u.Info()&types.IsString != 0:
			return "str", SStr
		}
	case *types.Slice:
		k, _ := heapKey(u.Elem())
		return "sl_" + k, SSl
	case *types.Pointer:
		return "p_" + typeName(u.Elem()), SInt
	case *types.Signature:
		return "fn", SFn
	case *types.Struct:
		return "st_" + typeName(elem), ""
	}
	fail("no heap for element type %s", elem)
	return "", ""
}

func typeName(t types.Type) string {
	if n, ok := t.(*types.Named); ok {
		return n.Obj().Name()
	}
	if p, ok := t.(*types.Pointer); ok {
		return "p_" + typeName(p.Elem())
	}
	s := t.String()
	s = strings.NewReplacer(" ", "", "{", "_", "}", "_", ";", "_", "[", "", "]", "s", "*", "p", ".", "_", "/", "_").Replace(s)
	if len(s) > 24 {
		s = fmt.Sprintf("anon%d", len(s))
	}
	return s
}

// ---------------------------------------------------------------------------
// Symbolic state

type Hyp struct {
	T     Term
	Label string
}

type State struct {
	vars   map[types.Object]Value
	heaps  map[string]Term // slice-element heaps: key -> (Array Int (Array Int T))
	fheaps map[string]Term // pointer-field heaps: "Type.f" -> (Array Int T)
	alloc  Term
	pc     []Hyp
	ghost  map[string]Term
	defers []func(*State)
	dead   bool
	gepoch int // ghost epoch: ghost entries created lazily after a callee with ghost effects get fresh symbols
}

func (s *State) clone() *State {
	n := &State{
		vars:   make(map[types.Object]Value, len(s.vars)),
		heaps:  make(map[string]Term, len(s.heaps)),
		fheaps: make(map[string]Term, len(s.fheaps)),
		alloc:  s.alloc,
		pc:     append([]Hyp(nil), s.pc...),
		ghost:  make(map[string]Term, len(s.ghost)),
		defers: append([]func(*State){}, s.defers...),
		gepoch: s.gepoch,
	}
	for k, v := range s.vars {
		n.vars[k] = v
	}
	for k, v := range s.heaps {
		n.heaps[k] = v
	}
	for k, v := range s.fheaps {
		n.fheaps[k] = v
	}
	for k, v := range s.ghost {
		n.ghost[k] = v
	}
	return n
}

func (s *State) assume(t Term, label string) {
	if t.S == "true" {
		return
	}
	if t.S == "false" {
		s.dead = true
	}
	s.pc = append(s.pc, Hyp{t, label})
}

func sortedKeys(m map[string]Term) []string {
	var ks []string
	for k := range m {
		ks = append(ks, k)
	}
	sort.Strings(ks)
	return ks
}
