package main

// Terms are SMT-LIB strings tagged with a sort. Construction does light
// constant folding so that `cases m in {..}` instantiations become linear.

import (
	"fmt"
	"math/big"
	"strings"
)

type Term struct {
	S    string
	Sort string
}

const (
	SInt  = "Int"
	SReal = "Real"
	SBool = "Bool"
	SStr  = "Str"
	SCx   = "Cx"
	SFn   = "Fn"
	SSl   = "Slice"
	SFl   = "Fl" // uninterpreted float sort (U-mode)
)

func ArrSort(elem string) string { return "(Array Int " + elem + ")" }
func HeapSort(elem string) string {
	return "(Array Int " + ArrSort(elem) + ")"
}

func elemOfArr(sort string) string {
	// "(Array Int X)" -> X
	if strings.HasPrefix(sort, "(Array Int ") {
		return sort[len("(Array Int ") : len(sort)-1]
	}
	panic("not an array sort: " + sort)
}

var (
	TTrue  = Term{"true", SBool}
	TFalse = Term{"false", SBool}
)

func Int(n int64) Term {
	if n < 0 {
		return Term{fmt.Sprintf("(- %d)", -n), SInt}
	}
	return Term{fmt.Sprintf("%d", n), SInt}
}

func BigInt(n *big.Int) Term {
	if n.Sign() < 0 {
		return Term{"(- " + new(big.Int).Neg(n).String() + ")", SInt}
	}
	return Term{n.String(), SInt}
}

func intLit(t Term) (*big.Int, bool) {
	if t.Sort != SInt {
		return nil, false
	}
	s := t.S
	neg := false
	if strings.HasPrefix(s, "(- ") && strings.HasSuffix(s, ")") {
		neg = true
		s = s[3 : len(s)-1]
	}
	if s == "" {
		return nil, false
	}
	for _, c := range s {
		if c < '0' || c > '9' {
			return nil, false
		}
	}
	n, ok := new(big.Int).SetString(s, 10)
	if !ok {
		return nil, false
	}
	if neg {
		n.Neg(n)
	}
	return n, true
}

// RealLit renders a decimal literal ("0.2888", "1e-3", "2") as an exact rational.
func RealLit(lit string) (Term, error) {
	r, ok := new(big.Rat).SetString(lit)
	if !ok {
		return Term{}, fmt.Errorf("bad real literal %q", lit)
	}
	return RatTerm(r), nil
}

func RatTerm(r *big.Rat) Term {
	num, den := r.Num(), r.Denom()
	neg := num.Sign() < 0
	n := new(big.Int).Abs(num)
	var s string
	if den.IsInt64() && den.Int64() == 1 {
		s = n.String() + ".0"
	} else {
		s = "(/ " + n.String() + ".0 " + den.String() + ".0)"
	}
	if neg {
		s = "(- " + s + ")"
	}
	return Term{s, SReal}
}

func realLit(t Term) (*big.Rat, bool) {
	if t.Sort != SReal {
		return nil, false
	}
	s := t.S
	neg := false
	if strings.HasPrefix(s, "(- ") && strings.HasSuffix(s, ")") && strings.Count(s, "(") <= 2 {
		inner := s[3 : len(s)-1]
		if r, ok := realLit(Term{inner, SReal}); ok {
			return new(big.Rat).Neg(r), true
		}
		return nil, false
	}
	_ = neg
	if strings.HasPrefix(s, "(/ ") && strings.HasSuffix(s, ")") {
		parts := strings.Fields(s[3 : len(s)-1])
		if len(parts) != 2 {
			return nil, false
		}
		a, ok1 := new(big.Rat).SetString(parts[0])
		b, ok2 := new(big.Rat).SetString(parts[1])
		if !ok1 || !ok2 || b.Sign() == 0 {
			return nil, false
		}
		return new(big.Rat).Quo(a, b), true
	}
	if strings.ContainsAny(s, "() ") {
		return nil, false
	}
	for _, c := range s {
		if !(c >= '0' && c <= '9' || c == '.') {
			return nil, false
		}
	}
	r, ok := new(big.Rat).SetString(s)
	return r, ok
}

func App(sort, f string, args ...Term) Term {
	if len(args) == 0 {
		return Term{f, sort}
	}
	var b strings.Builder
	b.WriteString("(")
	b.WriteString(f)
	for _, a := range args {
		b.WriteString(" ")
		b.WriteString(a.S)
	}
	b.WriteString(")")
	return Term{b.String(), sort}
}

func Not(a Term) Term {
	switch a.S {
	case "true":
		return TFalse
	case "false":
		return TTrue
	}
	if strings.HasPrefix(a.S, "(not ") {
		return Term{a.S[5 : len(a.S)-1], SBool}
	}
	return App(SBool, "not", a)
}

func And(xs ...Term) Term {
	var out []Term
	for _, x := range xs {
		if x.S == "true" {
			continue
		}
		if x.S == "false" {
			return TFalse
		}
		out = append(out, x)
	}
	if len(out) == 0 {
		return TTrue
	}
	if len(out) == 1 {
		return out[0]
	}
	return App(SBool, "and", out...)
}

func Or(xs ...Term) Term {
	var out []Term
	for _, x := range xs {
		if x.S == "false" {
			continue
		}
		if x.S == "true" {
			return TTrue
		}
		out = append(out, x)
	}
	if len(out) == 0 {
		return TFalse
	}
	if len(out) == 1 {
		return out[0]
	}
	return App(SBool, "or", out...)
}

func Implies(a, b Term) Term {
	if a.S == "true" {
		return b
	}
	if a.S == "false" || b.S == "true" {
		return TTrue
	}
	return App(SBool, "=>", a, b)
}

func Ite(c, a, b Term) Term {
	if c.S == "true" {
		return a
	}
	if c.S == "false" {
		return b
	}
	if a.S == b.S {
		return a
	}
	if a.Sort == SBool {
		if a.S == "true" && b.S == "false" {
			return c
		}
		if a.S == "false" && b.S == "true" {
			return Not(c)
		}
	}
	return App(a.Sort, "ite", c, a, b)
}

func Eq(a, b Term) Term {
	a, b = coerce2(a, b)
	if a.Sort != b.Sort {
		panic(fmt.Sprintf("Eq sort mismatch: %s:%s vs %s:%s", a.S, a.Sort, b.S, b.Sort))
	}
	if a.S == b.S {
		return TTrue
	}
	if x, ok := intLit(a); ok {
		if y, ok := intLit(b); ok {
			if x.Cmp(y) == 0 {
				return TTrue
			}
			return TFalse
		}
	}
	if a.Sort == SBool {
		if b.S == "true" {
			return a
		}
		if b.S == "false" {
			return Not(a)
		}
		if a.S == "true" {
			return b
		}
		if a.S == "false" {
			return Not(b)
		}
	}
	return App(SBool, "=", a, b)
}

func Neq(a, b Term) Term { return Not(Eq(a, b)) }

func ToReal(a Term) Term {
	if a.Sort == SReal {
		return a
	}
	if a.Sort != SInt {
		panic("ToReal of " + a.Sort + " " + a.S)
	}
	if n, ok := intLit(a); ok {
		return RatTerm(new(big.Rat).SetInt(n))
	}
	return App(SReal, "to_real", a)
}

// coerce2 lifts Int to Real when mixed.
func coerce2(a, b Term) (Term, Term) {
	if a.Sort == SReal && b.Sort == SInt {
		return a, ToReal(b)
	}
	if a.Sort == SInt && b.Sort == SReal {
		return ToReal(a), b
	}
	return a, b
}

func Cmp(op string, a, b Term) Term {
	a, b = coerce2(a, b)
	if x, ok := intLit(a); ok {
		if y, ok := intLit(b); ok {
			c := x.Cmp(y)
			var r bool
			switch op {
			case "<":
				r = c < 0
			case "<=":
				r = c <= 0
			case ">":
				r = c > 0
			case ">=":
				r = c >= 0
			}
			if r {
				return TTrue
			}
			return TFalse
		}
	}
	if x, ok := realLit(a); ok {
		if y, ok := realLit(b); ok {
			c := x.Cmp(y)
			var r bool
			switch op {
			case "<":
				r = c < 0
			case "<=":
				r = c <= 0
			case ">":
				r = c > 0
			case ">=":
				r = c >= 0
			}
			if r {
				return TTrue
			}
			return TFalse
		}
	}
	return App(SBool, op, a, b)
}


// splitOffset recognises `(+ X c)` / `(- X c)` with literal c and returns (X, c).
func splitOffset(t Term) (Term, *big.Int, bool) {
	if t.Sort != SInt || len(t.S) < 5 || t.S[0] != '(' {
		return t, nil, false
	}
	op := t.S[1]
	if (op != '+' && op != '-') || t.S[2] != ' ' {
		return t, nil, false
	}
	body := t.S[3 : len(t.S)-1]
	// split into exactly two top-level args
	depth := 0
	cut := -1
	for i := 0; i < len(body); i++ {
		switch body[i] {
		case '(':
			depth++
		case ')':
			depth--
		case ' ':
			if depth == 0 {
				if cut >= 0 {
					return t, nil, false
				}
				cut = i
			}
		}
	}
	if cut < 0 {
		return t, nil, false
	}
	a, b := body[:cut], body[cut+1:]
	c, ok := intLit(Term{b, SInt})
	if !ok {
		return t, nil, false
	}
	if op == '-' {
		c = new(big.Int).Neg(c)
	}
	return Term{a, SInt}, c, true
}

func addConst(x Term, c *big.Int) Term {
	if c.Sign() == 0 {
		return x
	}
	if c.Sign() < 0 {
		return App(SInt, "-", x, BigInt(new(big.Int).Neg(c)))
	}
	return App(SInt, "+", x, BigInt(c))
}

func Add(a, b Term) Term {
	a, b = coerce2(a, b)
	if a.Sort == SInt {
		x, ok1 := intLit(a)
		y, ok2 := intLit(b)
		if ok1 && ok2 {
			return BigInt(new(big.Int).Add(x, y))
		}
		if ok1 && x.Sign() == 0 {
			return b
		}
		if ok2 && y.Sign() == 0 {
			return a
		}
		if ok1 && !ok2 {
			a, b, x, y, ok1, ok2 = b, a, y, x, ok2, ok1
		}
		if ok2 {
			if base, c, ok := splitOffset(a); ok {
				return addConst(base, new(big.Int).Add(c, y))
			}
			return addConst(a, y)
		}
	} else if a.Sort == SReal {
		x, ok1 := realLit(a)
		y, ok2 := realLit(b)
		if ok1 && ok2 {
			return RatTerm(new(big.Rat).Add(x, y))
		}
		if ok1 && x.Sign() == 0 {
			return b
		}
		if ok2 && y.Sign() == 0 {
			return a
		}
	}
	return App(a.Sort, "+", a, b)
}

func Sub(a, b Term) Term {
	a, b = coerce2(a, b)
	if a.Sort == SInt {
		x, ok1 := intLit(a)
		y, ok2 := intLit(b)
		if ok1 && ok2 {
			return BigInt(new(big.Int).Sub(x, y))
		}
		if ok2 && y.Sign() == 0 {
			return a
		}
		if ok2 {
			if base, c, ok := splitOffset(a); ok {
				return addConst(base, new(big.Int).Sub(c, y))
			}
			return addConst(a, new(big.Int).Neg(y))
		}
	} else if a.Sort == SReal {
		x, ok1 := realLit(a)
		y, ok2 := realLit(b)
		if ok1 && ok2 {
			return RatTerm(new(big.Rat).Sub(x, y))
		}
		if ok2 && y.Sign() == 0 {
			return a
		}
	}
	if a.S == b.S {
		if a.Sort == SInt {
			return Int(0)
		}
	}
	return App(a.Sort, "-", a, b)
}

func Neg(a Term) Term {
	if x, ok := intLit(a); ok {
		return BigInt(new(big.Int).Neg(x))
	}
	if x, ok := realLit(a); ok {
		return RatTerm(new(big.Rat).Neg(x))
	}
	return App(a.Sort, "-", a)
}

func Mul(a, b Term) Term {
	a, b = coerce2(a, b)
	if a.Sort == SInt {
		x, ok1 := intLit(a)
		y, ok2 := intLit(b)
		if ok1 && ok2 {
			return BigInt(new(big.Int).Mul(x, y))
		}
		if ok1 && x.IsInt64() && x.Int64() == 1 {
			return b
		}
		if ok2 && y.IsInt64() && y.Int64() == 1 {
			return a
		}
		if (ok1 && x.Sign() == 0) || (ok2 && y.Sign() == 0) {
			return Int(0)
		}
	} else if a.Sort == SReal {
		x, ok1 := realLit(a)
		y, ok2 := realLit(b)
		if ok1 && ok2 {
			return RatTerm(new(big.Rat).Mul(x, y))
		}
	}
	// canonical order: literal factor first (so len*8 and 8*len are the same term)
	if _, ok := intLit(b); ok {
		a, b = b, a
	} else if _, ok := realLit(b); ok {
		if _, ok2 := realLit(a); !ok2 {
			a, b = b, a
		}
	}
	return App(a.Sort, "*", a, b)
}

func RDiv(a, b Term) Term {
	a, b = ToReal(a), ToReal(b)
	x, ok1 := realLit(a)
	y, ok2 := realLit(b)
	if ok1 && ok2 && y.Sign() != 0 {
		return RatTerm(new(big.Rat).Quo(x, y))
	}
	if ok2 && y.Sign() != 0 {
		return Mul(RatTerm(new(big.Rat).Inv(y)), a)
	}
	// x / y as x * (1/y): products then normalise to the same monomial whatever the code's operation order
	if ok1 && x.Cmp(big.NewRat(1, 1)) == 0 {
		return App(SReal, "/", a, b)
	}
	return Mul(a, App(SReal, "/", RatTerm(big.NewRat(1, 1)), b))
}

// TDiv is Go's truncating integer division.
func TDiv(a, b Term) Term {
	x, ok1 := intLit(a)
	y, ok2 := intLit(b)
	if ok1 && ok2 && y.Sign() != 0 {
		return BigInt(new(big.Int).Quo(x, y))
	}
	return App(SInt, "tdiv", a, b)
}

// TMod is Go's truncating remainder.
func TMod(a, b Term) Term {
	x, ok1 := intLit(a)
	y, ok2 := intLit(b)
	if ok1 && ok2 && y.Sign() != 0 {
		return BigInt(new(big.Int).Rem(x, y))
	}
	if ok2 && y.Sign() != 0 {
		return App(SInt, "tmod", a, b)
	}
	// symbolic divisor: uninterpreted, with the true facts of Go's % on non-negative operands (prelude block "umod")
	return App(SInt, "umod", a, b)
}

// EMod is Euclidean mod (SMT-LIB mod), used for x & (2^k-1).
func EMod(a, b Term) Term {
	x, ok1 := intLit(a)
	y, ok2 := intLit(b)
	if ok1 && ok2 && y.Sign() != 0 {
		return BigInt(new(big.Int).Mod(x, y))
	}
	return App(SInt, "mod", a, b)
}

func EDiv(a, b Term) Term {
	x, ok1 := intLit(a)
	y, ok2 := intLit(b)
	if ok1 && ok2 && y.Sign() > 0 {
		q := new(big.Int)
		m := new(big.Int)
		q.DivMod(x, y, m)
		return BigInt(q)
	}
	return App(SInt, "div", a, b)
}

func Pow2(a Term) Term {
	if x, ok := intLit(a); ok && x.Sign() >= 0 && x.IsInt64() && x.Int64() <= 4096 {
		return BigInt(new(big.Int).Lsh(big.NewInt(1), uint(x.Int64())))
	}
	return App(SInt, "pow2", a)
}

func Select(arr, idx Term) Term {
	return App(elemOfArr(arr.Sort), "select", arr, idx)
}

func Store(arr, idx, v Term) Term {
	return App(arr.Sort, "store", arr, idx, v)
}

func Forall(vars []Term, body Term, pats ...[]Term) Term {
	if body.S == "true" {
		return TTrue
	}
	var b strings.Builder
	b.WriteString("(forall (")
	for _, v := range vars {
		fmt.Fprintf(&b, "(%s %s)", v.S, v.Sort)
	}
	b.WriteString(") ")
	if len(pats) > 0 {
		b.WriteString("(! ")
		b.WriteString(body.S)
		for _, p := range pats {
			b.WriteString(" :pattern (")
			for i, t := range p {
				if i > 0 {
					b.WriteString(" ")
				}
				b.WriteString(t.S)
			}
			b.WriteString(")")
		}
		b.WriteString(")")
	} else {
		b.WriteString(body.S)
	}
	b.WriteString(")")
	return Term{b.String(), SBool}
}

func Exists(vars []Term, body Term) Term {
	var b strings.Builder
	b.WriteString("(exists (")
	for _, v := range vars {
		fmt.Fprintf(&b, "(%s %s)", v.S, v.Sort)
	}
	b.WriteString(") ")
	b.WriteString(body.S)
	b.WriteString(")")
	return Term{b.String(), SBool}
}
