package main

// Renamed locals. Contracts name parameters and local variables. A pure rename in the code (same declarations, one
// spelling changed) would otherwise stop obligation generation. /verif/locals.json records, per function under
// contract, the declared variable names in source order as of the tree the contracts were written for; when a contract
// mentions a name that no longer exists and the function still declares the same number of variables, the variable
// now standing at that position is used. Sound: contract clauses are proved (invariants, posts) or are preconditions
// stated over the same parameter positions; a wrong guess can only make an obligation fail, never pass wrongly...
// except for preconditions, so aliasing is refused unless exactly one name changed at that ordinal.

import (
	"go/token"
	"strings"
	"bytes"
	"encoding/json"
	"fmt"
	"go/ast"
	"go/printer"
	"go/types"
	"os"
	"path/filepath"
	"sort"
)

func (e *Engine) declaredNames(key string) []string {
	fd := e.decls[key]
	p := e.declPkg[key]
	if fd == nil || p == nil {
		return nil
	}
	var names []string
	add := func(fl *ast.FieldList) {
		if fl == nil {
			return
		}
		for _, f := range fl.List {
			for _, n := range f.Names {
				names = append(names, n.Name)
			}
		}
	}
	add(fd.Recv)
	add(fd.Type.Params)
	add(fd.Type.Results)
	if fd.Body != nil {
		ast.Inspect(fd.Body, func(n ast.Node) bool {
			if id, ok := n.(*ast.Ident); ok {
				if v, ok := p.TypesInfo.Defs[id].(*types.Var); ok && !v.IsField() && id.Name != "_" {
					names = append(names, id.Name)
				}
			}
			return true
		})
	}
	return names
}

func (e *Engine) loadLocals() {
	if e.localsSnap != nil {
		return
	}
	e.localsSnap = map[string][]string{}
	b, err := os.ReadFile(filepath.Join(homeDir(), "locals.json"))
	if err != nil {
		return
	}
	_ = json.Unmarshal(b, &e.localsSnap)
}

// aliasNew: the current spelling of a variable that the contract (written for the recorded tree) calls `old`.
func (e *Engine) aliasNew(key, old string) string {
	e.loadLocals()
	snap := e.localsSnap[key]
	cur := e.declaredNames(key)
	if len(snap) == 0 || len(snap) != len(cur) {
		return ""
	}
	inSnap := map[string]bool{}
	for _, n := range snap {
		inSnap[n] = true
	}
	cand := ""
	for i, n := range snap {
		if n != old {
			continue
		}
		if cur[i] == old {
			return "" // still declared under the old name somewhere: not a rename
		}
		if inSnap[cur[i]] {
			return "" // the new spelling collides with a recorded name
		}
		if cand != "" && cand != cur[i] {
			return ""
		}
		cand = cur[i]
	}
	// everything else must be unchanged at its ordinal, except other occurrences of the same rename
	for i := range snap {
		if snap[i] != cur[i] && !(snap[i] == old && cur[i] == cand) {
			if !e.renameOK(snap, cur, i) {
				return ""
			}
		}
	}
	if cand != "" {
		e.note(key, fmt.Sprintf("contract name %s resolved to the renamed variable %s (same declaration ordinal; locals.json)", old, cand))
	}
	return cand
}

// renameOK: position i differs because of another consistent rename (old name gone everywhere, new name not recorded).
func (e *Engine) renameOK(snap, cur []string, i int) bool {
	o, n := snap[i], cur[i]
	for j := range snap {
		if snap[j] == o && cur[j] != n {
			return false
		}
		if cur[j] == n && snap[j] != o {
			return false
		}
	}
	return true
}

// aliasOld: the recorded spelling for a current parameter name (for `cases x in {...}` and call-site bindings).
func (e *Engine) aliasOld(key, curName string) string {
	e.loadLocals()
	snap := e.localsSnap[key]
	cur := e.declaredNames(key)
	if len(snap) == 0 || len(snap) != len(cur) {
		return ""
	}
	for i, n := range cur {
		if n == curName && snap[i] != curName {
			if e.aliasNew(key, snap[i]) == curName {
				return snap[i]
			}
		}
	}
	return ""
}

func cmdLocals() int {
	e, err := newEngine()
	if err != nil {
		fmt.Fprintln(os.Stderr, "error:", err)
		return 2
	}
	out := map[string][]string{}
	var keys []string
	for k := range e.contracts {
		keys = append(keys, k)
	}
	sort.Strings(keys)
	for _, k := range keys {
		out[k] = e.declaredNames(k)
		out[k+"#loops"] = e.loopHeaders(k)
	}
	b, _ := json.MarshalIndent(out, "", " ")
	fmt.Println(string(b))
	return 0
}

// loopHeaders: the loops of a function in pre-order, each as the text of its header (init; cond; post / range clause).
func (e *Engine) loopHeaders(key string) []string {
	fd := e.decls[key]
	if fd == nil || fd.Body == nil {
		return nil
	}
	hs := []string{}
	pr := func(n ast.Node) string {
		if n == nil {
			return ""
		}
		var b bytes.Buffer
		_ = printer.Fprint(&b, e.fset, n)
		return b.String()
	}
	ast.Inspect(fd.Body, func(n ast.Node) bool {
		switch s := n.(type) {
		case *ast.ForStmt:
			var init, post ast.Node
			if s.Init != nil {
				init = s.Init
			}
			if s.Post != nil {
				post = s.Post
			}
			var cond ast.Node
			if s.Cond != nil {
				cond = s.Cond
			}
			hs = append(hs, "for "+pr(init)+"; "+pr(cond)+"; "+pr(post))
		case *ast.RangeStmt:
			var k, v ast.Node
			if s.Key != nil {
				k = s.Key
			}
			if s.Value != nil {
				v = s.Value
			}
			hs = append(hs, "range "+pr(k)+", "+pr(v)+" := "+pr(s.X))
		}
		return true
	})
	return hs
}

// loopOrdinals maps the current loops (pre-order) to the loop ordinals the contract was written with. Unchanged
// functions map k -> k. When loops were added or removed, the recorded headers (locals.json) are aligned with the
// current ones by a longest common subsequence on the header text; a loop that matches no recorded loop gets an
// ordinal above every contract ordinal (it has no loop contract and is cut with the invariant `true`), and a recorded
// loop that disappeared keeps its ordinal unused (a loop contract naming it is a contract/code mismatch, as before).
func (e *Engine) loopOrdinals(key string, n int) []int {
	e.loadLocals()
	ords := make([]int, n)
	for i := range ords {
		ords[i] = i + 1
	}
	snap, ok := e.localsSnap[key+"#loops"]
	if !ok {
		return ords
	}
	cur := e.loopHeaders(key)
	if len(cur) != n {
		return ords
	}
	same := len(cur) == len(snap)
	if same {
		for i := range cur {
			if cur[i] != snap[i] {
				same = false
			}
		}
	}
	if same || len(cur) == len(snap) {
		return ords // same number of loops: positional (headers may have been edited in place)
	}
	// LCS alignment
	m := len(snap)
	L := make([][]int, m+1)
	for i := range L {
		L[i] = make([]int, n+1)
	}
	for i := m - 1; i >= 0; i-- {
		for j := n - 1; j >= 0; j-- {
			if snap[i] == cur[j] {
				L[i][j] = L[i+1][j+1] + 1
			} else if L[i+1][j] >= L[i][j+1] {
				L[i][j] = L[i+1][j]
			} else {
				L[i][j] = L[i][j+1]
			}
		}
	}
	extra := 1000
	i, j := 0, 0
	for j < n {
		switch {
		case i < m && snap[i] == cur[j]:
			ords[j] = i + 1
			i++
			j++
		case i < m && L[i+1][j] >= L[i][j+1]:
			i++
		default:
			extra++
			ords[j] = extra
			j++
		}
	}
	e.note(key, fmt.Sprintf("loops were added or removed: contract loop ordinals aligned by header text (%v)", ords))
	return ords
}

// countingLoopVar: for the loop with this contract ordinal, the variable v of a header `for v := 0; cond; v++` (or v += 1).
func (x *Exec) countingLoopVar(ord int) *types.Var {
	for node, o := range x.loopOrd {
		if o != ord {
			continue
		}
		fs, ok := node.(*ast.ForStmt)
		if !ok || fs.Init == nil || fs.Post == nil {
			return nil
		}
		as, ok := fs.Init.(*ast.AssignStmt)
		if !ok || as.Tok != token.DEFINE || len(as.Lhs) != 1 || len(as.Rhs) != 1 {
			return nil
		}
		id, ok := as.Lhs[0].(*ast.Ident)
		lit, ok2 := as.Rhs[0].(*ast.BasicLit)
		if !ok || !ok2 || lit.Value != "0" {
			return nil
		}
		okPost := false
		switch p := fs.Post.(type) {
		case *ast.IncDecStmt:
			if pid, ok := p.X.(*ast.Ident); ok && pid.Name == id.Name && p.Tok == token.INC {
				okPost = true
			}
		case *ast.AssignStmt:
			if len(p.Lhs) == 1 && len(p.Rhs) == 1 && p.Tok == token.ADD_ASSIGN {
				if pid, ok := p.Lhs[0].(*ast.Ident); ok && pid.Name == id.Name {
					if l, ok := p.Rhs[0].(*ast.BasicLit); ok && l.Value == "1" {
						okPost = true
					}
				}
			}
		}
		if !okPost {
			return nil
		}
		v, _ := x.pkg.TypesInfo.Defs[id].(*types.Var)
		return v
	}
	return nil
}

// recordedCountingVar: the contract was written when the loop with ordinal `cur` (or an enclosing one) had the header
// `for name := 0; ...; name++`; returns that ordinal if the loop is now a range loop (whose hidden index replaces name).
func (e *Engine) recordedCountingVar(key, name string, cur int) int {
	e.loadLocals()
	snap := e.localsSnap[key+"#loops"]
	hs := e.loopHeaders(key)
	if len(snap) == 0 || len(snap) != len(hs) {
		return 0
	}
	for k := len(snap); k >= 1; k-- {
		h := snap[k-1]
		if strings.HasPrefix(h, "for "+name+" := 0;") && (strings.HasSuffix(h, name+"++") || strings.HasSuffix(h, name+" += 1")) && strings.HasPrefix(hs[k-1], "range ") {
			if k == cur || cur == 0 || k <= cur {
				return k
			}
		}
	}
	return 0
}
